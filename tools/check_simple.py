"""Checks for the self-contained properties: C17 (gap), C18 (stores), C10 (dominance checker), C13 (combinators part)."""
import itertools, struct
from common import *
from gen import Rng, IMAX, IMIN


def f32_of_bits(b):
    return struct.unpack("<f", struct.pack("<I", b))[0]


# ================================================================================ C17
def check_c17(tier):
    chk = Check("C17", tier, "proof")
    pinned = ["C17_never_nan", "C17_never_negative", "C17_one_while_infinite", "C17_zero_iff_coincide",
              "C17_at_most_one_same_sign", "C17_refuted_before_fix"]
    pr = check_proofs("C17", pinned)
    proof_coverage(chk, pr, "make theories/Props/C17.vo && coqc theories/Props/C17.v (Print Assumptions scanned)")
    ok, out = build_harness()
    if not ok:
        chk.violation("unproved", "harness does not build against /repo: " + out, {"build": out}); return chk.finish()
    ok, out = build_model()
    if not ok:
        chk.violation("unproved", "model driver does not build: " + out, {"build": out}); return chk.finish()
    rng = Rng(chk.seed)
    grid = [0, 1, -1, 2, -2, 5, -5, 2**24 - 1, 2**24, 2**24 + 1, -(2**24) - 1, 2**31, -(2**31), 2**53 - 1, 2**53 + 1, -(2**53) - 1,
            2**62, -(2**62), IMAX, IMAX - 1, IMIN, IMIN + 1, 3, 7, 10, 100, -100, 2**40 + 3]
    pairs = [(a, b) for a in grid for b in grid if a <= b]
    nrand = 2000 if tier == "quick" else 60000
    for _ in range(nrand):
        k = rng.below(4)
        if k == 0:
            a = rng.range(-50, 50); b = rng.range(-50, 50)
        elif k == 1:
            a = rng.range(IMIN, IMAX); b = rng.range(IMIN, IMAX)
        elif k == 2:
            e = rng.range(1, 62); a = rng.range(-(2**e), 2**e); b = rng.range(-(2**e), 2**e)
        else:
            a = rng.range(-(2**30), 2**30); b = a + rng.range(0, 3)
        if a > b: a, b = b, a
        pairs.append((a, b))
    path = workfile("c17_cases.txt")
    with open(path, "w") as f:
        for a, b in pairs: f.write("G %d %d\n" % (a, b))
    impl, _ = run_impl("gap", path)
    model = run_model("gap", path)
    dist = {"total": len(pairs), "sentinel": 0, "coincide": 0, "same_sign": 0, "mixed_sign": 0}
    nontrivial = set()
    samples = []
    agree = 0
    for (a, b), li, lm in zip(pairs, impl, model):
        case = {"lb": a, "ub": b, "impl": li, "model": lm}
        sent = (b == IMAX or a == IMIN)
        if sent: dist["sentinel"] += 1
        elif a == b: dist["coincide"] += 1
        elif a >= 0 or b <= 0: dist["same_sign"] += 1
        else: dist["mixed_sign"] += 1
        if not sent and a != b: nontrivial.add((a, b))
        if len(samples) < 6 and (len(samples) % 2 == 0) == (a >= 0): samples.append(case)
        # (A) the property itself, on the implementation's answer
        tok = li.split()[1] if len(li.split()) > 1 else "?"
        bad = None
        if tok == "nan": bad = "gap is NaN"
        elif tok == "CRASH": bad = "gap panics"
        else:
            g = f32_of_bits(int(tok))
            if g < 0 or (int(tok) >> 31) == 1: bad = "gap is negative"
            elif sent and g != 1.0: bad = "gap is not 1 while a bound is infinite"
            elif not sent and (g == 0.0) != (a == b): bad = "gap is 0 iff bounds coincide fails"
            elif not sent and (a >= 0 or b <= 0) and g > 1.0: bad = "gap exceeds 1 for bounds of one sign"
        if bad:
            chk.violation("property", "%s for lb=%d ub=%d (impl %s)" % (bad, a, b, li), case)
        # (B) correspondence
        if li == lm: agree += 1
        elif not bad:
            chk.violation("unproved", "correspondence Gap.gap vs Solver::gap differs at lb=%d ub=%d: impl %s model %s (property clauses hold on this input)"
                          % (a, b, li, lm), dict(case, theorem="C17_* are about Gap.gap, which no longer matches the code"))
    chk.cov.update({"evaluations": len(pairs), "distinct_nontrivial": len(nontrivial),
                    "rule": "pairs lb<=ub from a fixed grid of 28 magnitudes (all pairs) plus seeded random pairs (small, full-range, power-of-two "
                            "windows, near-coincident); non-trivial = distinct pair with finite, different bounds",
                    "samples": samples, "input_distribution": dist, "agreements_model_vs_impl": agree,
                    "traces_validated_against_impl": agree})
    chk.assumptions = ["IEEE-754 conformity of `as f32` and f32 division on the target", "Flocq's formalisation of binary32"]
    return chk.finish()


# ================================================================================ C18
def cache_alphabet():
    ops = []
    for s in (0, 1):
        for d in (0, 1):
            for v in (0, 1):
                for e in (0, 1):
                    ops.append([1, s, d, v, e])
    ops.append([2, 0]); ops.append([2, 1]); ops.append([3])
    return ops


def check_c18(tier):
    chk = Check("C18", tier, "proof")
    pinned = ["C18_cache_refines_spec", "C18_cache_never_panics_in_range", "C18_clear_layer_affects_no_other",
              "C18_stored_threshold_never_decreases", "C18_interleaving_independent", "C18_no_update_lost",
              "C18_dominance_store_order_independent", "C18_dominance_store_is_pareto_front"]
    pr = check_proofs("C18", pinned)
    proof_coverage(chk, pr, "make theories/Props/C18.vo && coqc theories/Props/C18.v (Print Assumptions scanned)")
    for b, what in ((build_harness(), "harness"), (build_model(), "model driver")):
        if not b[0]:
            chk.violation("unproved", what + " does not build: " + b[1], {"build": b[1]}); return chk.finish()
    rng = Rng(chk.seed)
    alpha = cache_alphabet()
    L = 3 if tier == "quick" else 4
    cases = []
    for n in range(1, L + 1):
        for seq in itertools.product(range(len(alpha)), repeat=n):
            toks = [1, 2]
            for i in seq: toks += alpha[i]
            cases.append(toks)
    exhaustive_n = len(cases)
    # length-4/5 sampled, and long random sequences over a wider alphabet, with must_explore probes
    nrand = 3000 if tier == "quick" else 40000
    for _ in range(nrand):
        nv = rng.range(1, 3); ns = rng.range(1, 3)
        toks = [nv, ns]
        for _ in range(rng.range(4, 40)):
            k = rng.below(10)
            if k < 6: toks += [1, rng.below(ns), rng.below(nv + 1), rng.range(-3, 3), rng.below(2)]
            elif k < 7: toks += [2, rng.below(nv + 1)]
            elif k < 8: toks += [3]
            else: toks += [4, rng.below(ns), rng.below(nv + 1), rng.range(-3, 3)]
        cases.append(toks)
    # malformed stream: depth out of range -> both sides must panic (no property claim, correspondence only)
    for _ in range(50):
        cases.append([1, 1, 1, 0, 2 + rng.below(3), rng.range(-2, 2), rng.below(2)])
    blocks = [["C " + " ".join(map(str, t))] for t in cases]
    shards, outs_i = run_sharded("impl", "cache", blocks, tag="c18")
    _, outs_m = run_sharded("model", "cache", blocks, tag="c18")
    agree = 0; nontrivial = set(); samples = []
    dist = {"exhaustive_sequences_len<=%d" % L: exhaustive_n, "random_long": nrand, "malformed": 50, "crash_both": 0,
            "with_clear_layer": 0, "with_overwrite": 0}
    for k in range(len(shards)):
        for (idx, blk), li, lm in zip(shards[k], outs_i[k], outs_m[k]):
            toks = cases[idx]
            model, _, spec = lm.partition(" ## ")
            case = {"ops": toks, "impl": li, "model": model, "spec": "C " + spec}
            if len(samples) < 5 and idx % 977 == 0: samples.append(case)
            if " 2 " in " " + " ".join(map(str, toks[2:])) + " ": dist["with_clear_layer"] += 1
            if li == "C CRASH" and model == "C CRASH":
                dist["crash_both"] += 1; agree += 1; continue
            if li.count("|") > 1: nontrivial.add(li)
            # (A): implementation vs the sequential specification (spec_get, must_explore from the specified threshold)
            if li != "C " + spec:
                chk.violation("property", "cache disagrees with its sequential specification (maximum of the recorded thresholds since the last clear) "
                              "on ops %s: impl %s, spec C %s" % (toks, li, spec), case)
            if li == model: agree += 1
            elif li == "C " + spec:
                chk.violation("unproved", "correspondence CacheModel vs SimpleCache differs on ops %s" % toks, case)
    # concurrent phases
    npar = 60 if tier == "quick" else 600
    pcases = []
    for _ in range(npar):
        nth = rng.choice([2, 3, 4, 8, 16]); ns = rng.range(1, 2); nv = 1
        toks = [nv, ns, nth]
        for _ in range(rng.range(50, 400)):
            toks += [rng.below(ns), rng.below(nv + 1), rng.range(-20, 20), rng.below(2)]
        pcases.append(toks)
    path = workfile("c18_par.txt")
    with open(path, "w") as f:
        for t in pcases: f.write("P " + " ".join(map(str, t)) + "\n")
    impl, _ = run_impl("cachepar", path)
    model = run_model("cachepar", path)
    par_ok = 0
    for t, li, lm in zip(pcases, impl, model):
        if li == lm: par_ok += 1
        else:
            chk.violation("property", "concurrent cache phase (%d threads, %d updates): final state / monotonicity differs from the unique "
                          "sequentially reachable state: impl %s model %s" % (t[2], (len(t) - 3) // 4, li[:200], lm[:200]),
                          {"ops": t, "impl": li, "model": lm})
    # dominance store, concurrent inserts then probes
    dcases = []
    for _ in range(npar):
        nth = rng.choice([2, 4, 8, 16]); nc = rng.range(1, 2); usev = rng.below(2)
        head = [usev, nc, nth]
        for _ in range(rng.range(20, 200)):
            head += [rng.below(2)] + [rng.range(0, 4) for _ in range(nc)] + [rng.range(0, 4)]
        probes = []
        for _ in range(rng.range(5, 30)):
            probes += [rng.below(2)] + [rng.range(0, 4) for _ in range(nc)] + [rng.range(0, 4)]
        dcases.append((head, probes))
    # first insertions under FRESH keys: all threads record one member of an antichain under key r at about the same time (thread t handles
    # the inserts k with k % nthreads = t, so the j-th insert of every thread is for key j); every member must survive
    for _ in range(6 if tier == "quick" else 40):
        nth = rng.choice([2, 4, 8]); R = rng.range(300, 800)
        head = [0, 2, nth]; probes = []
        for key in range(R):
            for i in range(nth):
                head += [key, 2 * i + 1, 2 * (nth - 1 - i) + 1, 0]
                probes += [key, 2 * i, 2 * (nth - 1 - i), 0]
        dcases.append((head, probes))
    path = workfile("c18_dpar.txt")
    with open(path, "w") as f:
        for h, p in dcases: f.write("Q " + " ".join(map(str, h)) + " | " + " ".join(map(str, p)) + "\n")
    impl, _ = run_impl("dompar", path)
    model = run_model("dompar", path)
    dpar_ok = 0
    for (h, p), li, lm in zip(dcases, impl, model):
        if li == lm: dpar_ok += 1
        else:
            chk.violation("property", "after concurrent inserts (%d threads) the dominance store does not answer like the Pareto front of "
                          "the recorded states: impl %s model %s" % (h[2], li, lm), {"inserts": h[:400], "probes": p[:200], "impl": li[:400], "model": lm[:400]})
    chk.cov.update({"evaluations": len(cases) + len(pcases) + len(dcases), "distinct_nontrivial": len(nontrivial),
                    "rule": "all operation sequences up to length %d over the 19-symbol alphabet {update(2 states x 2 depths x 2 values x 2 flags), "
                            "clear_layer 0/1, clear} with every key read back after every operation; seeded random sequences (length 4..40) with "
                            "must_explore probes; malformed out-of-range depths; concurrent phases of 2..16 real threads; "
                            "non-trivial = distinct observable history with at least two operations" % L,
                    "exhaustive": True, "samples": samples, "input_distribution": dist,
                    "agreements_model_vs_impl": agree, "traces_validated_against_impl": agree,
                    "concurrent_cache_phases_ok": par_ok, "concurrent_dominance_phases_ok": dpar_ok})
    chk.assumptions = ["A-dashmap: each Cache / DominanceChecker trait method is one linearizable per-key dashmap operation "
                       "(real-thread atomicity is stress-tested, not proved)"]
    return chk.finish()


# ================================================================================ C10 (checker level + solver level)
def check_c10(tier, solver_stream=None):
    chk = Check("C10", tier, "proof")
    pinned = ["C10_partial_cmp_is_componentwise_order", "C10_query_verdict", "C10_dominated_query_changes_nothing",
              "C10_store_is_always_an_antichain", "C10_pareto_front_semantics", "C10_threshold_sound",
              "C10_cmp_ranks_dominator_first", "C10_store_query_is_bucket_query", "C10_keyless_states_never_dominated"]
    pinned = pinned + ["C10_sequential_solver_with_dominance_returns_optimum", "C10_sequential_solver_with_strictly_admissible_rule",
                       "C10_dominance_does_not_change_the_answer", "C10_REFUTED_for_merely_admissible_rules", "C10_REFUTED_without_values",
                       "C10_exact_rule_is_strictly_admissible", "C10_solver_holds_on_table_family", "C10_example_rule_prunes"]
    pr = check_proofs("C10+C10u", pinned)
    proof_coverage(chk, pr, "make theories/Props/C10.vo && coqc theories/Props/C10.v (Print Assumptions scanned)")
    for b, what in ((build_harness(), "harness"), (build_model(), "model driver")):
        if not b[0]:
            chk.violation("unproved", what + " does not build: " + b[1], {"build": b[1]}); return chk.finish()
    rng = Rng(chk.seed)
    cases = []
    # exhaustive: 16 symbols = 2 keys x coords {0,1}^2 x values {0,1}; both use_value modes
    syms = [[1, k, 0, c1, c2, v] for k in (0, 1) for c1 in (0, 1) for c2 in (0, 1) for v in (0, 1)]
    L = 3 if tier == "quick" else 4
    for usev in (0, 1):
        for n in range(1, L + 1):
            for seq in itertools.product(range(len(syms)), repeat=n):
                toks = [usev, 2, 1]
                for i in seq: toks += syms[i]
                cases.append(toks)
    # single key, 27 symbols {0,1,2}^2 x {0,1,2}, length <= 3
    syms3 = [[1, 0, 0, c1, c2, v] for c1 in (0, 1, 2) for c2 in (0, 1, 2) for v in (0, 1, 2)]
    L3 = 2 if tier == "quick" else 3
    for usev in (0, 1):
        for n in range(1, L3 + 1):
            for seq in itertools.product(range(len(syms3)), repeat=n):
                toks = [usev, 2, 1]
                for i in seq: toks += syms3[i]
                cases.append(toks)
    exhaustive_n = len(cases)
    nrand = 1500 if tier == "quick" else 20000
    for _ in range(nrand):
        usev = rng.below(2); nc = rng.range(0, 3); nv = rng.range(0, 2)
        toks = [usev, nc, nv]
        for _ in range(rng.range(5, 200 if rng.chance(1, 10) else 40)):
            k = rng.below(12)
            if k < 9:
                toks += [1, rng.range(-1, 2), rng.below(nv + 1)] + [rng.range(-2, 3) for _ in range(nc)] + [rng.choice([0, 1, 2, 3, -3, IMIN, IMAX, IMIN + 1])]
            elif k < 10:
                toks += [2, rng.below(nv + 1)]
            else:
                toks += [3, rng.below(2)] + [rng.range(-2, 3) for _ in range(nc)] + [rng.range(-2, 3)] + \
                        [rng.below(2)] + [rng.range(-2, 3) for _ in range(nc)] + [rng.range(-2, 3)]
        cases.append(toks)
    blocks = [["D " + " ".join(map(str, t))] for t in cases]
    shards, outs_i = run_sharded("impl", "dom", blocks, tag="c10")
    _, outs_m = run_sharded("model", "dom", blocks, tag="c10")
    agree = 0; nontrivial = set(); samples = []
    dist = {"exhaustive": exhaustive_n, "random": nrand, "dominated_verdicts": 0, "with_threshold": 0}
    for k in range(len(shards)):
        for (idx, blk), li, lm in zip(shards[k], outs_i[k], outs_m[k]):
            toks = cases[idx]
            model, _, spec = lm.partition(" ## ")
            case = {"ops": toks, "impl": li, "model": model, "spec_verdicts": spec}
            if len(samples) < 5 and idx % 1499 == 0: samples.append(case)
            it = li.split()[1:]
            dist["dominated_verdicts"] += sum(1 for t in it if t.startswith("1:"))
            if any(t.startswith("1:") for t in it): nontrivial.add(li)
            # (A) verdicts vs the Pareto-front specification; threshold clauses checked on the implementation's answers
            sv = spec.split()
            bad = None
            if li == "D CRASH": bad = "checker panics"
            elif len(it) != len(sv): bad = "answer count differs"
            else:
                usev = toks[0]
                pos = 3; qi = 0
                nc = toks[1]
                for t, s_ in zip(it, sv):
                    if s_ in ("0", "1"):
                        dom = t.startswith("1:")
                        if dom != (s_ == "1"):
                            bad = "verdict %s but specification says dominated=%s (query #%d)" % (t, s_, qi); break
                        if dom:
                            thr = t[2:]
                            # value of this query
                            val = toks[pos + 3 + nc]
                            if usev:
                                if thr == "none" or int(thr) < val: bad = "threshold %s below the presented value %d" % (thr, val); break
                            else:
                                if thr != str(IMAX): bad = "threshold %s without use_value (expected MAX)" % thr; break
                        elif t != "0": bad = "non-dominated verdict carries a threshold"; break
                    if toks[pos] == 1: pos += 4 + nc
                    elif toks[pos] == 2: pos += 2
                    else: pos += 1 + 2 * (nc + 2)
                    qi += 1
            if bad:
                chk.violation("property", "dominance checker: %s on ops %s (impl %s)" % (bad, toks, li), case)
            if li == model: agree += 1
            elif not bad:
                chk.violation("unproved", "correspondence DomModel vs SimpleDominanceChecker / Dominance default methods differs on ops %s: impl %s model %s"
                              % (toks, li, model), case)
    chk.cov.update({"evaluations": len(cases), "distinct_nontrivial": len(nontrivial),
                    "rule": "all query sequences up to length %d over 16 symbols (2 keys x {0,1}^2 x values {0,1}) and up to length %d over 27 symbols "
                            "({0,1,2}^2 x {0,1,2}), both use_value modes; seeded random sequences (to length 200) with clear_layer, key-less states, "
                            "extreme values and cmp/partial_cmp probes; non-trivial = distinct history with at least one dominated verdict" % (L, L3),
                    "exhaustive": True, "samples": samples, "input_distribution": dist, "agreements_model_vs_impl": agree,
                    "traces_validated_against_impl": agree})
    if solver_stream is not None:
        solver_stream(chk, rng, tier)
    chk.cov["explanation"] = ("Checker level: closed Coq theorems (Props/C10.v) about the model of partial_cmp / cmp / is_dominated_or_insert for all query "
                              "sequences, tied to the code by exhaustive + random differential runs. Solver level (enabling the checker never changes the "
                              "optimum): NOT proved; open obligation C10_search_sound; validated by solver runs with admissible rules against exhaustive enumeration.")
    chk.cov["open_obligations"] = ["solver-level theorem for transition-monotone rules that are not strictly admissible (knapsack capacity): not proved",
                                   "the solver-level clause is FALSE for merely value-to-go-admissible rules: known finding dominance-circular-pruning (refutation in Props/C10u.v)",
                                   "pooled / cache / NoDupFringe / parallel configurations with a rule: correspondence + oracle only"]
    return chk.finish()


# ================================================================================ C13 (combinators)
def c13_combinators(chk, tier):
    ok, out = build_harness(release=True)
    if not ok:
        chk.violation("unproved", "release harness does not build: " + out, {"build": out}); return
    vals = [0, 1, 2, 3, 5, 2**31, 2**32, 2**32 + 1, 2**63 - 1, 2**63, 2**63 + 1, 2**64 - 1, 12345, 2**33, 2**62]
    cases = [(kind, k, w) for kind in (0, 1, 2, 3, 4) for k in vals for w in vals]
    path = workfile("c13_width.txt")
    with open(path, "w") as f:
        for c in cases: f.write("W %d %d %d\n" % c)
    impl_d, _ = run_impl("width", path)
    impl_r, _ = run_impl("width", path, release=True)
    model_d = run_model("width", path)
    model_r = run_model("widthrel", path)
    nz = 0; agree = 0
    for c, a, b, ma, mb in zip(cases, impl_d, impl_r, model_d, model_r):
        for prof, x, m in (("debug", a, ma), ("release", b, mb)):
            case = {"combinator": c, "profile": prof, "impl": x, "model": m}
            if x == "W 0":
                chk.violation("property", "width combinator yields 0: kind=%d k=%d inner=%d (%s build)" % (c + (prof,)), case)
            elif x != "W CRASH": nz += 1
            if x == m: agree += 1
            elif prof == "release" and x == "W CRASH":
                pass   # release harness has panic=unwind; division by zero panics in both profiles — compared in debug
            elif x != "W 0":
                chk.violation("unproved", "correspondence WidthHeu vs width.rs differs: %s" % case, case)
    chk.cov["combinator_cases"] = 2 * len(cases); chk.cov["combinator_nonzero_results"] = nz; chk.cov["combinator_agreements"] = agree


# ================================================================================ C11
def run_lines(side, cmd, lines, tag):
    blocks = [[l] for l in lines]
    shards, outs = run_sharded(side, cmd, blocks, tag=tag)
    res = [None] * len(lines)
    for k in range(len(shards)):
        for (idx, _), o in zip(shards[k], outs[k]):
            res[idx] = o
    return res


def fringecheck(lines, impl, tag):
    """property oracle: the extracted abstract priority queue replays the implementation's answers"""
    import concurrent.futures
    n = 16
    chunks = [list(range(i, len(lines), n)) for i in range(n)]
    def work(k):
        idx = chunks[k]
        if not idx: return []
        cf = workfile("%s_fc_cases_%d.txt" % (tag, k)); of = workfile("%s_fc_impl_%d.txt" % (tag, k))
        open(cf, "w").write("\n".join(lines[i] for i in idx) + "\n")
        open(of, "w").write("\n".join(impl[i] for i in idx) + "\n")
        p = subprocess.run([MODEL_BIN, "fringecheck", cf, of], stdout=subprocess.PIPE, stderr=subprocess.PIPE, text=True)
        if p.returncode != 0: raise RuntimeError("fringecheck failed: " + p.stderr[-500:])
        return p.stdout.split("\n")[:-1]
    res = [None] * len(lines)
    with concurrent.futures.ThreadPoolExecutor(max_workers=n) as ex:
        for k, out in enumerate(ex.map(work, range(n))):
            for i, o in zip(chunks[k], out): res[i] = o
    return res


def check_c11(tier, solver_stream=None):
    chk = Check("C11", tier, "proof")
    pinned = ["C11_nodup_refines_priority_queue", "C11_pops_are_nonincreasing", "C11_len_is_number_of_poppable_items",
              "C11_survivor_keeps_best", "C11_dedup_only_same_subproblem", "C11_refuted_before_fix"]
    pr = check_proofs("C11", pinned)
    proof_coverage(chk, pr, "make theories/Props/C11.vo && coqc theories/Props/C11.v (Print Assumptions scanned)")
    for b, what in ((build_harness(), "harness"), (build_model(), "model driver")):
        if not b[0]:
            chk.violation("unproved", what + " does not build: " + b[1], {"build": b[1]}); return chk.finish()
    rng = Rng(chk.seed)
    # alphabet: push (2 states x 2 depths x 2 values x 2 ubs), pop, clear
    pushes = [[1, s, d, v, u, 0] for s in (0, 1) for d in (0, 1) for v in (0, 1) for u in (0, 1)]
    alpha = pushes + [[2], [3]]
    L = 3 if tier == "quick" else 4
    seqs = []
    for n in range(1, L + 1):
        for seq in itertools.product(range(len(alpha)), repeat=n):
            if not any(alpha[i] == [2] for i in seq): continue     # at least one pop: pushes alone show nothing new
            seqs.append([alpha[i] for i in seq])
    # 9-symbol alphabet (one depth): push (2 states x 2 values x 2 ubs), pop — longer
    pushes1 = [[1, s, 0, v, u, 0] for s in (0, 1) for v in (0, 1) for u in (0, 1)]
    alpha1 = pushes1 + [[2]]
    L1 = 5 if tier == "quick" else 6
    for seq in itertools.product(range(len(alpha1)), repeat=L1):
        ops = [alpha1[i] for i in seq]
        if sum(1 for o in ops if o == [2]) < 2: continue
        seqs.append(ops)
    exhaustive_n = len(seqs)
    nrand = 300 if tier == "quick" else 3000
    for _ in range(nrand):
        ns = rng.range(1, 6); nd = rng.range(1, 3)
        ops = []
        for _ in range(rng.range(20, 2000 if rng.chance(1, 20) else 120)):
            k = rng.below(20)
            if k < 12: ops.append([1, rng.below(ns), rng.below(nd), rng.range(-3, 6), rng.range(-3, 9), 0])
            elif k < 19: ops.append([2])
            else: ops.append([3])
        seqs.append(ops)
    # distinct path tags so that "that value's own path" is observable
    lines = {0: [], 1: []}
    for ops in seqs:
        toks = []
        tag = 0
        for o in ops:
            if o[0] == 1:
                tag += 1; toks += o[:5] + [tag]
            else: toks += o
        for kind in (0, 1):
            lines[kind].append("F %d %s" % (kind, " ".join(map(str, toks))))
    agree = 0; nontrivial = set(); samples = []
    dist = {"exhaustive_sequences": exhaustive_n, "random_sequences": nrand, "coalescing_pushes_seen": 0, "pops_nonempty": 0}
    for kind, name in ((1, "NoDupFringe"), (0, "SimpleFringe")):
        impl = run_lines("impl", "fringe", lines[kind], "c11_%d" % kind)
        verdicts = fringecheck(lines[kind], impl, "c11_%d" % kind)
        model = run_lines("model", "fringe", lines[kind], "c11m_%d" % kind) if kind == 1 else None
        for i, (l, li, v) in enumerate(zip(lines[kind], impl, verdicts)):
            case = {"fringe": name, "ops": l, "impl": li, "spec_verdict": v}
            if len(samples) < 6 and i % 4001 == 7: samples.append(case)
            if ":(" in li: nontrivial.add(li)
            dist["pops_nonempty"] += li.count(":(")
            if v != "OK":
                chk.violation("property", "%s is not a faithful priority queue: %s (ops %s, answers %s)" % (name, v, l[:300], li[:300]), case)
            if kind == 1:
                if li == model[i]: agree += 1
                elif v == "OK":
                    chk.violation("unproved", "correspondence NoDupHeap model vs NoDupFringe differs (answers still satisfy the queue specification): "
                                  "ops %s impl %s model %s" % (l[:300], li[:300], model[i][:300]), dict(case, model=model[i]))
    chk.cov.update({"evaluations": 2 * len(seqs), "distinct_nontrivial": len(nontrivial),
                    "rule": "all operation sequences with at least one pop up to length %d over the 18-symbol alphabet {push(2 states x 2 depths x 2 values x 2 ubs), "
                            "pop, clear}; all sequences of length %d with at least two pops over the 9-symbol one-depth alphabet; seeded random sequences "
                            "(20..2000 operations, up to 6 states x 3 depths); each run on both fringes; non-trivial = distinct answer history with a non-empty pop" % (L, L1),
                    "exhaustive": True, "samples": samples, "input_distribution": dist, "agreements_model_vs_impl": agree,
                    "traces_validated_against_impl": agree})
    if solver_stream is not None:
        solver_stream(chk, rng, tier)
    chk.assumptions = ["SimpleFringe = binary_heap_plus::BinaryHeap (external crate): specified by the abstract priority queue, tested, not modelled"]
    return chk.finish()


def c10_solver_stream(chk, rng, tier):
    """solver-level clause of C10: enabling an admissible dominance rule never changes the optimum (vs rule off vs exhaustive enumeration),
    plus the diagram-level correspondence with the dominance store (and cache) shared across compilations"""
    import check_mdd, check_solve
    from gen import gen_layered
    # (1) diagram level, as the solvers use the stores
    st = check_mdd.Stream(chk, tier, types=(2, 1), widths=(1, 2, 3), flavours=(0, 1, 2), ninst=(40 if tier == "quick" else 400), stores=True)
    st.meta = [(I, m) for (I, m) in st.meta]
    res = st.run()
    ag, ds = check_mdd.correspondence(chk, res, ["status", "cx", "cv", "x", "bv", "ev", "CS", "DOT", "LOG"])
    ndq = sum(li.count("DQ ") for _, rows in res for _, li, _, _ in rows)
    ndom = sum(li.count("-> 1 ") for _, rows in res for _, li, _, _ in rows)
    # (2) solver level
    insts = []
    for i in range(60 if tier == "quick" else 600):
        r = rng.fork()
        if i % 3 == 2:
            insts.append(gen_layered(r, nvars=r.range(5, 7), per_layer=r.range(3, 5), dom_max=2, depth_free=True, dominance=4, rub=r.choice([0, 3]), dead=False))
        else:
            insts.append(gen_layered(r, nvars=r.range(4, 7), per_layer=r.range(2, 4), dom_max=r.range(2, 3), dominance=r.choice([1, 2, 3]), rub=r.choice([0, 1, 3])))
    blocks = []
    for I in insts:
        lines = [I.line()]
        for flv in (0, 1, 2):
            for cache in (0, 1):
                for fr in (0, 1):
                    for w in (1, 2):
                        for dom in (0, 1):
                            lines.append(check_solve.sline(0, 1, 1, flv, cache, fr, w, 0, dom))
        blocks.append(lines)
    # corpus first: witnesses of the defects found earlier (instance line + S lines)
    import glob
    from gen import Inst
    cinsts = []; cblocks = []
    for fpath in sorted(glob.glob(os.path.join(VERIF, "corpus", "C10", "*.txt"))):
        ls = [l for l in open(fpath).read().split("\n") if l.strip()]
        if ls and ls[0].startswith("I "):
            cinsts.append(Inst.parse(ls[0])); cblocks.append([ls[0]] + [l for l in ls[1:] if l.startswith("S ")])
    insts = cinsts + insts; blocks = cblocks + blocks
    impl = check_solve.run_blocks("impl", blocks, "c10s")
    model = check_solve.run_blocks("model", blocks, "c10s")
    opts = check_mdd.oracle_batch([(I.line(), ["O opt"]) for I in insts])
    runs = 0; sag = 0; sdis = []
    for I, blk, il, ml, op in zip(insts, blocks, impl, model, opts):
        for case, li, lm in zip(blk[1:], il, ml):
            runs += 1
            f = check_solve.kv(li); fm = check_solve.kv(lm)
            ctx = check_solve.describe(I, case, li, lm, optimum=op[0])
            if "CRASH" in f or "HANG" in f or f.get("x") != "1" or f.get("bv") != op[0]:
                # known finding D10 (circular pruning through unresolved store entries): only where the MODEL of the unchanged code returns the
                # very same wrong value for this instance and configuration; anything else is reported
                known = (case.split()[9] == "1" and "CRASH" not in f and "HANG" not in f and f.get("x") == "1" and fm.get("x") == "1"
                         and f.get("bv") == fm.get("bv") and f.get("bv") != op[0])
                chk.violation("property", "with%s the dominance checker the solver returns %s (exact=%s); optimum by exhaustive enumeration is %s (%s)"
                              % ("" if case.split()[9] == "1" else "out", f.get("bv"), f.get("x"), op[0], case), ctx,
                              cls=("dominance-circular-pruning" if known else None))
            keys = ["x", "bv", "lb", "ub"] + ([] if fm.get("tie") == "1" else ["explored", "polls"])
            if all(f.get(k) == fm.get(k) for k in keys): sag += 1
            else: sdis.append((I, case, li, lm))
    chk.cov["solver_level"] = {"runs": runs, "agreements_model_vs_impl": sag, "disagreements": len(sdis),
                               "diagram_level_compilations": sum(len(r) for _, r in res), "diagram_level_agreements": ag,
                               "diagram_level_disagreements": len(ds), "dominance_queries_compared": ndq, "dominated_verdicts": ndom}
    if (ds or sdis) and not any(v[0] == "property" for v in chk.violations):
        # the correspondence broke but every clause held so far: widen the search for a concrete failing input. Strictly admissible rules only
        # (dk 1, 4: known finding D10 cannot occur with them), re-converging depth-free instances, every flavour with and without the cache
        wr = Rng(chk.seed + 1077); winsts = []
        for i in range(2000 if tier == "quick" else 10000):
            r = wr.fork()
            if i % 2 == 0:
                winsts.append(gen_layered(r, nvars=r.range(5, 8), per_layer=r.range(3, 5), dom_max=r.range(2, 3), depth_free=True, dominance=4, rub=r.choice([0, 3]), dead=False))
            else:
                winsts.append(gen_layered(r, nvars=r.range(4, 7), per_layer=r.range(2, 4), dom_max=r.range(2, 3), dominance=1, rub=r.choice([0, 1, 3])))
        wblocks = []
        for I in winsts:
            wblocks.append([I.line()] + [check_solve.sline(0, 1, 1, flv, cache, fr, w, 0, 1) for flv in (0, 1, 2) for cache in (0, 1) for fr in (0, 1) for w in (1, 2, 3)
                                         if not (flv != 2 and cache == 0 and fr == 1)])
        wimpl = check_solve.run_blocks("impl", wblocks, "c10w")
        wopts = check_mdd.oracle_batch([(I.line(), ["O opt"]) for I in winsts])
        nw = 0
        for I, blk, il, op in zip(winsts, wblocks, wimpl, wopts):
            for case, li in zip(blk[1:], il):
                nw += 1; f = check_solve.kv(li)
                if "CRASH" in f or "HANG" in f or f.get("x") != "1" or f.get("bv") != op[0]:
                    chk.violation("property", "widened search: with the dominance checker (strictly admissible rule) the solver returns %s (exact=%s); optimum by exhaustive "
                                              "enumeration is %s (%s)" % (f.get("bv"), f.get("x"), op[0], case), check_solve.describe(I, case, li, optimum=op[0]))
        chk.cov["solver_level"]["widened_search_runs"] = nw
    if (ds or sdis) and not any(v[0] == "property" for v in chk.violations):
        if ds:
            (I, meta, li, lm, case, why) = ds[0]
            chk.violation("unproved", "correspondence with the dominance store in the loop: diagram model and code differ on %s (%s)" % (why, case),
                          {"instance": I.line(), "case": case, "impl": li[:1500], "model": lm[:1500]})
        else:
            (I, case, li, lm) = sdis[0]
            chk.violation("unproved", "correspondence: solver model and code differ with dominance enabled (%s)" % case,
                          {"instance": I.line(), "case": case, "impl": li, "model": lm})


def nodup_tie(tier, tag):
    """small exhaustive correspondence stream for NoDupFringe (used by the solver-level checks whose theorems rely on the fringe model):
    returns (number of sequences, list of (ops line, impl, model, spec verdict) that disagree with the model or violate the queue specification)"""
    pushes = [[1, s, d, v, u, 0] for s in (0, 1) for d in (0, 1) for v in (0, 1, 2) for u in (0, 1, 2)]
    alpha = pushes + [[2]]
    seqs = []
    for n in (2, 3):
        for seq in itertools.product(range(len(alpha)), repeat=n):
            if alpha[seq[-1]] != [2]: continue
            seqs.append([alpha[i] for i in seq] + [[2], [2]])
    # three pushes then pops over a smaller alphabet (one depth, two values): a duplicate push that only raises the ub of an entry waiting
    # below a smaller-ub parent must restore the heap order
    small = [[1, s, 0, v, u, 0] for s in (0, 1) for v in (0, 1) for u in (0, 1, 2)]
    for seq in itertools.product(range(len(small)), repeat=3):
        seqs.append([small[i] for i in seq] + [[2], [2], [2]])
    lines = []
    for ops in seqs:
        toks = []; t = 0
        for o in ops:
            if o[0] == 1: t += 1; toks += o[:5] + [t]
            else: toks += o
        lines.append("F 1 " + " ".join(map(str, toks)))
    impl = run_lines("impl", "fringe", lines, tag)
    model = run_lines("model", "fringe", lines, tag + "m")
    verd = fringecheck(lines, impl, tag)
    bad = [(l, a, b, v) for l, a, b, v in zip(lines, impl, model, verd) if a != b or v != "OK"]
    return len(lines), bad
