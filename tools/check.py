"""Entry point: python3 tools/check.py <id> <quick|thorough>"""
import sys, os
sys.path.insert(0, os.path.dirname(os.path.abspath(__file__)))

def main():
    pid = sys.argv[1]; tier = sys.argv[2] if len(sys.argv) > 2 else "quick"
    import check_simple, check_mdd, check_solve, check_par, check_examples
    table = {
        "C17": lambda: check_simple.check_c17(tier),
        "C18": lambda: check_simple.check_c18(tier),
        "C10": lambda: check_simple.check_c10(tier, check_simple.c10_solver_stream),
        "C11": lambda: check_simple.check_c11(tier),
    }
    for d in ("C06", "C07", "C08", "C12", "C13", "C20"):
        table[d] = (lambda d=d: check_mdd.check_diagram(d, tier))
    table["C01"] = lambda: check_solve.check_c01(tier, "C01")
    table["C02"] = lambda: check_solve.check_c01(tier, "C02")
    table["C09"] = lambda: check_solve.check_c01(tier, "C09")
    table["C05"] = lambda: check_solve.check_cutoff(tier, "C05")
    table["C19"] = lambda: check_solve.check_cutoff(tier, "C19")
    table["C03"] = lambda: check_par.check_par(tier, "C03")
    table["C04"] = lambda: check_par.check_par(tier, "C04")
    table["C14"] = lambda: check_solve.check_c14(tier)
    table["C16"] = lambda: check_examples.check_c16(tier)
    table["C15"] = lambda: check_solve.check_c15(tier)
    if pid not in table:
        print("unknown property " + pid); sys.exit(2)
    sys.exit(table[pid]())

main()
