"""C16, misp example: correspondence between the Coq model of the shipped example (coq/theories/Misp.v, about which the C16_misp_*
theorems are stated) and the example's own source compiled into the harness (harness/src/misp.rs; instances go through the example's
parser). Also compares what the library computes on the example's model with the brute-force optimum of the Coq model."""
import itertools, os, re
from common import *
from gen import Rng

MEXTRACT = os.path.join(VERIF, ".build", "mispextract")
MMODEL = os.path.join(MEXTRACT, "mispmodel")
PINNED = ["C16_misp_dp_optimum_is_the_independent_set_optimum", "C16_misp_brute_force_is_an_upper_bound", "C16_misp_brute_force_is_attained",
          "C16_misp_run_selects_an_independent_set", "C16_misp_every_independent_set_is_a_run",
          "C16_misp_every_independent_set_is_a_run_when_the_diagram_stops", "C16_misp_run_sound_with_completion", "C16_misp_run_complete_with_rest",
          "C16_misp_merge_covers_members", "C16_misp_cover_is_a_simulation", "C16_misp_cover_keeps_completions", "C16_misp_relax_not_below_cost",
          "C16_misp_rough_bound_admissible", "C16_misp_rough_bound_monotone", "C16_misp_rough_bound_covers_runs_of_covered_states",
          "C16_misp_prefix_bound_refuted", "C16_misp_long_arcs_are_neutral", "C16_misp_next_variable_undecided",
          "C16_misp_next_variable_none_means_done", "C16_misp_values_are_machine_integers", "C16_misp_example_instance"]


def build_mispmodel():
    ok, out = coq_make(["theories/Misp.vo"])
    if not ok: return False, out[-3000:]
    with Lock("mispextract"):
        os.makedirs(MEXTRACT, exist_ok=True)
        srcs = [os.path.join(COQ, "theories", "Misp.vo"), os.path.join(COQ, "theories", "ExtractMisp.v"), os.path.join(VERIF, "extract", "mispdriver.ml")]
        if os.path.exists(MMODEL) and all(os.path.getmtime(s) <= os.path.getmtime(MMODEL) for s in srcs): return True, ""
        p = run(["coqc", "-Q", os.path.join(COQ, "theories"), "DDO", os.path.join(COQ, "theories", "ExtractMisp.v")], cwd=MEXTRACT, timeout=900)
        if p.returncode != 0: return False, p.stdout[-3000:]
        run(["cp", os.path.join(VERIF, "extract", "mispdriver.ml"), MEXTRACT], check=True)
        p = run(["ocamlfind", "ocamlopt", "-O2", "-w", "-a", "mispmodel.mli", "mispmodel.ml", "mispdriver.ml", "-o", "mispmodel"], cwd=MEXTRACT, timeout=900)
        if p.returncode != 0: return False, p.stdout[-3000:]
        return True, ""


def gen_instance(r, i):
    shape = ["plain", "dense", "sparse", "negative", "zero", "selfloop", "dup", "single", "path", "plain"][i % 10]
    n = 1 if shape == "single" else r.range(2, 9)
    pairs = [(u, v) for u in range(n) for v in range(u + 1, n)]
    den = {"dense": (3, 4), "sparse": (1, 6)}.get(shape, (r.range(1, 3), 4))
    edges = [(u, v) if r.chance(1, 2) else (v, u) for (u, v) in pairs if r.chance(*den)]
    if shape == "path": edges = [(u, u + 1) for u in range(n - 1)]
    if shape == "selfloop":
        for _ in range(r.range(1, 2)): u = r.range(0, n - 1); edges.append((u, u))
    if shape == "dup" and edges:
        for _ in range(r.range(1, 3)): u, v = r.choice(edges); edges.append(r.choice([(u, v), (v, u)]))
    r.shuffle(edges)
    ws = [r.range(-6, 9) if shape == "negative" else r.choice([0, 0, 1, 3]) if shape == "zero" else r.range(1, 12) for _ in range(n)]
    return shape, n, ws, edges


def seqs(r, n, ws, edges):
    """sequences of (vertex, decision): vertices in a random duplicate-free order, mostly feasible decisions (a vertex adjacent to a taken
    one, or decided before, is mostly left), plus a malformed share"""
    adj = set((u, v) for u, v in edges) | set((v, u) for u, v in edges)
    out = []
    def one(valid):
        order = list(range(n)); r.shuffle(order); k = r.range(0, n); taken = []; q = []
        for v in order[:k]:
            blocked = any((v, t) in adj and v != t for t in taken)
            d = 0 if blocked and valid else r.choice([1, 1, 0])
            if d == 1: taken.append(v)
            q.append((v, d))
        if not valid and q and r.chance(1, 2): q.append((q[0][0], 1))      # decide a vertex twice
        return q
    for _ in range(30): out.append(one(True))
    for _ in range(8): out.append(one(False))
    return out


def fmt(q): return " ".join("%d:%d" % vd for vd in q)


def misp_correspondence(chk, rng, tier):
    stats = {"instances": 0, "queries": 0, "agree": 0, "disagree": 0, "invalid_sequences": 0, "merges": 0, "next_variable_calls": 0,
             "next_variable_none": 0, "solver_runs_compared_with_model_optimum": 0, "shapes": {}}
    ok, msg = build_mispmodel()
    if not ok:
        chk.violation("unproved", "the model of the misp example does not build: " + msg, {"build": msg}); return stats
    ok, msg = build_harness()
    if not ok:
        chk.violation("unproved", "harness does not build: " + msg, {"build": msg}); return stats
    n_inst = 60 if tier == "quick" else 800
    lines = []; plan = []
    for i in range(n_inst):
        r = rng.fork(); shape, n, ws, edges = gen_instance(r, i)
        stats["shapes"][shape] = stats["shapes"].get(shape, 0) + 1
        qs = seqs(r, n, ws, edges)
        groups = []
        for kind in "GGGGGGNNNNNNNN":
            m = r.range(1, 4); groups.append((kind, [r.choice(qs[:30]) for _ in range(m)]))
        # full sequences (every vertex decided, nothing taken next to a taken one): next_variable must answer none on such layers
        groups.append(("N", [[(v, 0) for v in range(n)]]))
        head = "P %d %d %s %s" % (n, len(edges), " ".join(map(str, ws)), " ".join("%d %d" % e for e in edges))
        body = ["Q " + fmt(q) for q in qs] + ["%s %s" % (k, " | ".join(fmt(q) for q in g)) for k, g in groups]
        lines.append(head.strip()); lines += body
        plan.append((shape, head.strip(), body))
    casefile = workfile("c16misp_impl_misp_0.txt"); open(casefile, "w").write("\n".join(lines) + "\n")
    oi, _ = run_impl("misp", casefile)
    p = subprocess.run([MMODEL, casefile], stdout=subprocess.PIPE, stderr=subprocess.PIPE, text=True, timeout=1800)
    if p.returncode != 0:
        chk.violation("unproved", "the extracted misp model failed: " + p.stderr[-500:], {}); return stats
    om = p.stdout.split("\n")
    dis = []; pos = 0
    for shape, head, body in plan:
        stats["instances"] += 1
        a = oi[pos] if pos < len(oi) else "MISSING"; b = om[pos] if pos < len(om) else "MISSING"
        ctx = {"instance": head, "shape": shape}
        ma = re.match(r"(P n=\d+ init=\S+) solved=(\S+)", a); mb = re.match(r"(P n=\d+ init=\S+) brute=(\S+)", b)
        if not ma or not mb or ma.group(1) != mb.group(1):
            dis.append(("behaviour", "misp example and its Coq model differ on the instance line: code `%s`, model `%s`" % (a, b), dict(ctx, impl=a, model=b)))
        elif mb.group(2) != "skipped":
            for k, sv in enumerate(ma.group(2).split(",")):
                stats["solver_runs_compared_with_model_optimum"] += 1
                if sv != "true:" + mb.group(2):
                    dis.append(("optimum", "the library run on the misp example's model (SeqNoCachingSolverLel, NoDupFringe, width %d) returns %s; the maximum weight "
                                           "of an independent set (brute force of the Coq model) is %s" % (k + 1, sv, mb.group(2)), dict(ctx, impl=a, model=b)))
        for j, q in enumerate(body, 1):
            a = oi[pos + j] if pos + j < len(oi) else "MISSING"; b = om[pos + j] if pos + j < len(om) else "MISSING"
            stats["queries"] += 1
            if q.startswith("G"): stats["merges"] += 1
            if q.startswith("N"):
                stats["next_variable_calls"] += 1
                if a == "N var=none": stats["next_variable_none"] += 1
            if a.endswith("invalid"): stats["invalid_sequences"] += 1
            if a == b: stats["agree"] += 1
            else:
                stats["disagree"] += 1
                dis.append(("behaviour", "misp example and its Coq model differ on `%s`: code `%s`, model `%s`" % (q, a, b), dict(ctx, query=q, impl=a, model=b)))
        pos += 1 + len(body)
    stats["disagreements"] = len(dis)
    return stats, dis


if __name__ == "__main__":
    import sys
    class C:
        seed = 1
        def violation(self, *a): print("VIOLATION", a[:2])
    r = misp_correspondence(C(), Rng(5), sys.argv[1] if len(sys.argv) > 1 else "quick")
    if isinstance(r, tuple):
        print(json.dumps(r[0], indent=1)); print(r[1][:5])
    else: print(r)
