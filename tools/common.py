"""Shared machinery of the checks: builds, running both sides, evidence, violation protocol."""
import fcntl, hashlib, json, os, re, subprocess, sys, time

VERIF = os.path.dirname(os.path.dirname(os.path.abspath(__file__)))
BUILD = os.path.join(VERIF, ".build")
COQ = os.path.join(VERIF, "coq")
EXTRACT_DIR = os.path.join(BUILD, "extract")
HARNESS_DIR = os.path.join(VERIF, "harness")
HARNESS_BIN = os.path.join(BUILD, "harness-target", "debug", "ddoharness")
HARNESS_BIN_REL = os.path.join(BUILD, "harness-target", "release", "ddoharness")
MODEL_BIN = os.path.join(EXTRACT_DIR, "ddomodel")
WORK = os.path.join(BUILD, "work")
REPLAYS = os.path.join(VERIF, "replays")
EVIDENCE = os.path.join(VERIF, "evidence")

ENV = dict(os.environ, CARGO_NET_OFFLINE="true", CARGO_TARGET_DIR=os.path.join(BUILD, "harness-target"))

# axioms a Print Assumptions block may mention (all declared by Coq's standard library, none by this development)
AXIOM_ALLOW = {
    "ClassicalDedekindReals.sig_not_dec", "ClassicalDedekindReals.sig_forall_dec",
    "FunctionalExtensionality.functional_extensionality_dep", "Classical_Prop.classic",
}
FORBIDDEN = re.compile(r"\b(Admitted|admit|Axiom|Axioms|Parameter|Parameters|Conjecture|Conjectures|Unset Guard Checking|bypass_check|type-in-type|impredicative-set|Admit Obligations)\b")

TRUSTED_BASE = [
    "Coq 8.16.1 kernel (coqc; vm_compute used in Examples and refutation witnesses; no native_compute)",
    "axioms: none declared by this development; Print Assumptions of every property theorem is checked against an allow-list "
    "(only the classical real-number axioms pulled in by Flocq/Reals for C17: sig_not_dec, sig_forall_dec, functional_extensionality_dep, classic)",
    "the model is a hand transliteration of the Rust sources; the tie to the code is the differential correspondence run on every check "
    "(Rust harness built from /repo's working tree vs. the OCaml program extracted from the Coq model)",
    "extraction: ExtrOcamlBasic only (bool, option, list, prod, unit, sumbool -> OCaml natives), no Extract Constant / Extract Inductive of our own; "
    "Z, positive, nat, ascii, string stay extracted inductives; extract/driver.ml (parsing, printing) is trusted glue",
    "tools/*.py (generators, canonicalisation, comparison, evidence), harness/src/*.rs (table models, wrappers) are trusted test glue",
    "modelled, not verified: rustc, std, hashbrown/fxhash iteration order (abstracted), dashmap per-key atomicity, parking_lot, binary_heap_plus",
]


def log(*a):
    print(*a, file=sys.stderr, flush=True)


def run(cmd, cwd=None, timeout=3600, env=None, check=False, capture=True):
    p = subprocess.run(cmd, cwd=cwd, timeout=timeout, env=env or ENV, stdout=subprocess.PIPE if capture else None,
                       stderr=subprocess.STDOUT if capture else None, text=True)
    if check and p.returncode != 0:
        raise RuntimeError("command failed: %s\n%s" % (cmd, p.stdout))
    return p


class Lock:
    def __init__(self, name):
        os.makedirs(BUILD, exist_ok=True)
        self.path = os.path.join(BUILD, name + ".lock")
    def __enter__(self):
        self.f = open(self.path, "w")
        fcntl.flock(self.f, fcntl.LOCK_EX)
    def __exit__(self, *a):
        fcntl.flock(self.f, fcntl.LOCK_UN); self.f.close()


# ---------------------------------------------------------------------------- builds
def build_harness(release=False):
    """cargo build of the harness against /repo's *current working tree* (path dependency)."""
    with Lock("cargo"):
        lock = os.path.join(HARNESS_DIR, "Cargo.lock")
        if not os.path.exists(lock):
            run(["cp", "/repo/Cargo.lock", lock], check=True)
        cmd = ["cargo", "build", "--offline", "--quiet"] + (["--release"] if release else [])
        p = run(cmd, cwd=HARNESS_DIR, timeout=1800)
        if p.returncode != 0:
            return False, p.stdout[-4000:]
        return True, ""


def coq_make(targets):
    """Full .vo build of the given targets (no -vos). Returns (ok, output)."""
    with Lock("coq"):
        if not os.path.exists(os.path.join(COQ, "Makefile")) or \
           os.path.getmtime(os.path.join(COQ, "Makefile")) < os.path.getmtime(os.path.join(COQ, "_CoqProject")):
            run(["coq_makefile", "-f", "_CoqProject", "-o", "Makefile"], cwd=COQ, check=True)
        p = run(["timeout", "3000", "make", "-j16"] + targets, cwd=COQ, timeout=3100)
        return p.returncode == 0, p.stdout


def build_model():
    """Extraction + ocamlopt of the driver; rebuilt when any input is newer than the binary."""
    ok, out = coq_make(["theories/Run.vo"])
    if not ok:
        return False, out[-4000:]
    with Lock("extract"):
        os.makedirs(EXTRACT_DIR, exist_ok=True)
        srcs = [os.path.join(COQ, "theories", "Run.vo"), os.path.join(COQ, "theories", "Extract.v"),
                os.path.join(VERIF, "extract", "driver.ml")]
        if os.path.exists(MODEL_BIN) and all(os.path.getmtime(s) <= os.path.getmtime(MODEL_BIN) for s in srcs):
            return True, ""
        p = run(["coqc", "-Q", os.path.join(COQ, "theories"), "DDO", os.path.join(COQ, "theories", "Extract.v")], cwd=EXTRACT_DIR, timeout=900)
        if p.returncode != 0:
            return False, p.stdout[-4000:]
        run(["cp", os.path.join(VERIF, "extract", "driver.ml"), EXTRACT_DIR], check=True)
        p = run(["ocamlfind", "ocamlopt", "-O2", "-w", "-a", "model.mli", "model.ml", "driver.ml", "-o", "ddomodel"], cwd=EXTRACT_DIR, timeout=900)
        if p.returncode != 0:
            return False, p.stdout[-4000:]
        return True, ""


def check_proofs(prop_file, pinned):
    """`prop_file` may be "C01" or "C01+C01u": several theorem files, each pinned name must be declared in one of them."""
    files = prop_file.split("+")
    if len(files) == 1:
        return check_proofs1(prop_file, pinned)
    left = list(pinned); res = []
    for f in files:
        src = open(os.path.join(COQ, "theories", "Props", f + ".v")).read()
        declared = re.findall(r"^(?:Theorem|Lemma|Corollary)\s+(\w+)", src, re.M)
        mine = [n for n in left if n in declared]
        left = [n for n in left if n not in declared]
        res.append(check_proofs1(f, mine))
    problems = [p for r in res for p in r["problems"]] + ["pinned theorem %s is missing from Props/%s" % (n, prop_file) for n in left]
    problems = list(dict.fromkeys(problems))
    discharged = sum(r["discharged"] for r in res)
    return dict(obligations=len(pinned), discharged=discharged if not problems else min(discharged, len(pinned) - 1),
                problems=problems, theorems=pinned)


def check_proofs1(prop_file, pinned):
    """Compile theories/Props/<prop_file>.v (and what it depends on), collect the Print Assumptions blocks and
    compare them with the allow-list; scan the development for forbidden vernacular.
    Returns dict(obligations, discharged, problems[list of str], theorems[list])."""
    problems = []
    ok, out = coq_make(["theories/Props/%s.vo" % prop_file])
    if not ok:
        problems.append("theorem file Props/%s.v (or a file it depends on) no longer compiles: %s" % (prop_file, out[-1500:]))
        return dict(obligations=len(pinned), discharged=0, problems=problems, theorems=pinned)
    # re-run coqc on the property file alone to capture this run's Print Assumptions output
    with Lock("coq"):
        p = run(["coqc", "-Q", "theories", "DDO", "theories/Props/%s.v" % prop_file], cwd=COQ, timeout=1800)
    if p.returncode != 0:
        problems.append("coqc Props/%s.v failed: %s" % (prop_file, p.stdout[-1500:]))
        return dict(obligations=len(pinned), discharged=0, problems=problems, theorems=pinned)
    text = p.stdout
    src = open(os.path.join(COQ, "theories", "Props", prop_file + ".v")).read()
    declared = re.findall(r"^(?:Theorem|Lemma|Corollary)\s+(\w+)", src, re.M)
    printed = re.findall(r"^Print Assumptions (\w+)\.", src, re.M)
    for name in pinned:
        if name not in declared:
            problems.append("pinned theorem %s is missing from Props/%s.v" % (name, prop_file))
        if name not in printed:
            problems.append("no Print Assumptions for %s" % name)
    # split the output in blocks, one per Print Assumptions, in order
    blocks = re.split(r"(?=^(?:Closed under the global context|Axioms:))", text, flags=re.M)
    blocks = [b for b in blocks if b.startswith("Closed under") or b.startswith("Axioms:")]
    if len(blocks) != len(printed):
        problems.append("expected %d Print Assumptions blocks, saw %d" % (len(printed), len(blocks)))
    discharged = 0
    for name, b in zip(printed, blocks):
        bad = []
        if b.startswith("Axioms:"):
            for m in re.finditer(r"^([A-Za-z_][\w.']*)\s*(?::|$)", b[len("Axioms:"):], re.M):
                ax = m.group(1)
                if ax not in AXIOM_ALLOW:
                    bad.append(ax)
        if bad:
            problems.append("theorem %s depends on axioms outside the allow-list: %s" % (name, ", ".join(bad)))
        elif name in pinned:
            discharged += 1
    # forbidden vernacular anywhere in the development
    for root, _, files in os.walk(os.path.join(COQ, "theories")):
        for f in files:
            if f.endswith(".v"):
                s = open(os.path.join(root, f)).read()
                s = re.sub(r"\(\*.*?\*\)", "", s, flags=re.S)
                m = FORBIDDEN.search(s)
                if m:
                    problems.append("forbidden vernacular '%s' in %s" % (m.group(1), f))
    proj = open(os.path.join(COQ, "_CoqProject")).read()
    if "type-in-type" in proj or "impredicative-set" in proj or "-vos" in proj:
        problems.append("_CoqProject passes a forbidden flag")
    return dict(obligations=len(pinned), discharged=discharged if not problems else min(discharged, len(pinned) - 1),
                problems=problems, theorems=pinned)


# ---------------------------------------------------------------------------- running both sides
def workfile(name):
    os.makedirs(WORK, exist_ok=True)
    return os.path.join(WORK, name)


def run_impl(cmd, casefile, release=False, timeout=1800):
    p = subprocess.run([HARNESS_BIN_REL if release else HARNESS_BIN, cmd, casefile], stdout=subprocess.PIPE, stderr=subprocess.PIPE,
                       text=True, timeout=timeout)
    return p.stdout.split("\n")[:-1] if p.stdout.endswith("\n") else p.stdout.split("\n"), p.returncode


def run_model(cmd, casefile, timeout=1800):
    p = subprocess.run([MODEL_BIN, cmd, casefile], stdout=subprocess.PIPE, stderr=subprocess.PIPE, text=True, timeout=timeout)
    if p.returncode != 0:
        raise RuntimeError("model driver failed (%s): %s" % (cmd, p.stderr[-2000:]))
    return p.stdout.split("\n")[:-1]


def run_sharded(side, cmd, blocks, nshards=16, release=False, tag="c"):
    """blocks = list of list-of-lines (each block is self-contained, e.g. an instance line followed by its cases).
    Runs them over nshards processes and returns, per block, the list of output lines."""
    import concurrent.futures
    shards = [[] for _ in range(nshards)]
    for i, b in enumerate(blocks):
        shards[i % nshards].append((i, b))
    def work(k):
        sh = shards[k]
        if not sh:
            return []
        path = workfile("%s_%s_%s_%d.txt" % (tag, side, cmd, k))
        with open(path, "w") as f:
            for _, b in sh:
                f.write("\n".join(b) + "\n")
        if side == "model":
            return run_model(cmd, path)
        nlines = sum(len(b) for _, b in sh)
        limit = 150 if nlines < 6000 else 900
        try:
            return run_impl(cmd, path, release=release, timeout=limit)[0]
        except subprocess.TimeoutExpired:
            if cmd != "solve": raise
            # some case of this shard does not terminate (e.g. a deadlocked parallel run): isolate it; every `solve` case is independent
            out = []; hangs = 0
            for bi, (_, b) in enumerate(sh):
                if hangs >= 3:
                    out += ["S HANG (not run: three cases of this shard already hang)"] * (len(b) - 1); continue
                bp = workfile("%s_%s_%s_%d_b%d.txt" % (tag, side, cmd, k, bi))
                open(bp, "w").write("\n".join(b) + "\n")
                try:
                    out += run_impl(cmd, bp, release=release, timeout=40)[0]
                except subprocess.TimeoutExpired:
                    for ci, case in enumerate(b[1:]):
                        cp = workfile("%s_%s_%s_%d_b%d_c%d.txt" % (tag, side, cmd, k, bi, ci))
                        open(cp, "w").write(b[0] + "\n" + case + "\n")
                        try:
                            o = run_impl(cmd, cp, release=release, timeout=10)[0]
                            out += o if o else ["S CRASH (no output)"]
                        except subprocess.TimeoutExpired:
                            out.append("S HANG (watchdog 10 s)"); hangs += 1
            return out
    res = [None] * len(blocks)
    with concurrent.futures.ThreadPoolExecutor(max_workers=nshards) as ex:
        outs = list(ex.map(work, range(nshards)))
    return shards, outs


# ---------------------------------------------------------------------------- evidence / verdict
class Check:
    def __init__(self, pid, tier, level):
        self.pid = pid; self.tier = tier; self.level = level
        self.seed = int(os.environ.get("VERIF_SEED", "20260925"))
        self.t0 = time.time()
        self.cov = {}
        self.assumptions = []
        self.violations = []     # list of (kind, description, replay dict)
        self.known = []
        self.notes = []
        kf = os.path.join(VERIF, "KNOWN_FINDINGS.json")
        self.known_findings = json.load(open(kf)) if os.path.exists(kf) else {"findings": [], "fixed": []}

    def known_class(self, cls):
        for f in self.known_findings.get("findings", []):
            if f.get("property") == self.pid and f.get("class") == cls:
                return f
        return None

    def violation(self, kind, desc, replay, cls=None):
        """kind: 'property' (a concrete failing input of the property) or 'unproved' (theorem / correspondence broken,
        no failing input found)."""
        if cls is not None:
            k = self.known_class(cls)
            if k is not None:
                if cls not in [x[0] for x in self.known]:
                    self.known.append((cls, k.get("what", desc)))
                return
        self.violations.append((kind, desc, replay))

    def finish(self):
        os.makedirs(EVIDENCE, exist_ok=True); os.makedirs(REPLAYS, exist_ok=True)
        wall = time.time() - self.t0
        ev = {"property_id": self.pid, "tier": self.tier, "seed": self.seed, "level": self.level,
              "coverage": self.cov, "assumptions": self.assumptions, "wall_s": round(wall, 2),
              "violations": len(self.violations)}
        if self.notes:
            ev["coverage"]["notes"] = self.notes
        with open(os.path.join(EVIDENCE, self.pid + ".json"), "w") as f:
            json.dump(ev, f, indent=1, sort_keys=True, default=str)
        for cls, what in self.known:
            print("KNOWN-FINDING: property=%s %s" % (self.pid, what))
        if not self.violations:
            print("OK property=%s tier=%s wall=%.1fs" % (self.pid, self.tier, wall))
            return 0
        # prefer a concrete failing input of the property
        self.violations.sort(key=lambda v: 0 if v[0] == "property" else 1)
        kind, desc, replay = self.violations[0]
        h = hashlib.sha1(json.dumps(replay, sort_keys=True, default=str).encode()).hexdigest()[:10]
        path = os.path.join(REPLAYS, "%s-%s.json" % (self.pid, h))
        with open(path, "w") as f:
            json.dump({"property": self.pid, "kind": kind, "description": desc, "replay": replay,
                       "other_violations": [v[1] for v in self.violations[1:20]]}, f, indent=1, default=str)
        log("violation: " + desc)
        if kind == "property":
            print("VIOLATION property=%s replay=%s" % (self.pid, path))
        else:
            print("VIOLATION property=%s replay=%s no-failing-input-found" % (self.pid, path))
        return 1


def proof_coverage(chk, pr, checker_cmd):
    chk.cov["obligations"] = pr["obligations"]
    chk.cov["discharged"] = pr["discharged"]
    chk.cov["theorems"] = pr["theorems"]
    chk.cov["checker_cmd"] = checker_cmd
    chk.cov["trusted_base"] = TRUSTED_BASE
    for p in pr["problems"]:
        chk.violation("unproved", "proof obligation no longer checks: " + p, {"theorem_file": checker_cmd, "problem": p})
