#!/bin/bash
# usage: confirm_seed.sh <seed-name> <agent worktree dir>
# copies the agent's deliverables into /verif/seeded/<name> and re-confirms its three claims in a FRESH worktree of /repo HEAD
set -u
NAME=$1; WT=$2
D=/verif/seeded/$NAME
mkdir -p $D
cp $WT/OUT/patch.diff $D/patch.diff
cp $WT/OUT/meta.txt $D/agent_meta.txt 2>/dev/null
DEMO=$(ls $WT/OUT/*.rs | head -1); cp $DEMO $D/demo_main.rs
git -C /repo worktree remove --force /tmp/confirm >/dev/null 2>&1
git -C /repo worktree add --detach /tmp/confirm HEAD -f >/dev/null 2>&1
cd /tmp/confirm
export CARGO_TARGET_DIR=$WT/target
if grep -q "^#\[test\]\|#\[cfg(test)\]" $D/demo_main.rs && ! grep -q "^fn main" $D/demo_main.rs; then
  mkdir -p ddo/tests && cp $D/demo_main.rs ddo/tests/seeded_demo.rs
  RUN="cargo test --offline -p ddo --test seeded_demo"
else
  mkdir -p ddo/examples/seeded_demo && cp $D/demo_main.rs ddo/examples/seeded_demo/main.rs
  RUN="cargo run --offline --example seeded_demo"
fi
timeout 1200 $RUN >/tmp/confirm_a.log 2>&1; A=$?
git apply $D/patch.diff || { echo "PATCH DOES NOT APPLY"; exit 2; }
T=$(timeout 2400 cargo test --workspace --no-fail-fast --offline 2>&1 | grep -E "^test result" | tr '\n' ' ')
timeout 1200 $RUN >/tmp/confirm_b.log 2>&1; B=$?
echo "demo without change: exit $A ; tests with change: $T ; demo with change: exit $B" | tee $D/confirm.txt
tail -3 /tmp/confirm_b.log
cd /; git -C /repo worktree remove --force /tmp/confirm
