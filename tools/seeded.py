"""Runs registered checks against a seeded change: applies seeded/<name>/patch.diff to /repo, runs the given checks, always reverts.
usage: python3 tools/seeded.py <name> [Cxx ...]   (default: the property named in meta.json plus its neighbours)"""
import json, os, subprocess, sys
VERIF = os.path.dirname(os.path.dirname(os.path.abspath(__file__)))

def main():
    name = sys.argv[1]
    d = os.path.join(VERIF, "seeded", name)
    meta = json.load(open(os.path.join(d, "meta.json")))
    checks = sys.argv[2:] or meta.get("checks_to_run") or [meta["property"]]
    patch = os.path.join(d, "patch.diff")
    st = subprocess.run(["git", "-C", "/repo", "status", "--porcelain"], capture_output=True, text=True).stdout.strip()
    if st:
        print("refusing: /repo has uncommitted changes:\n" + st); sys.exit(2)
    r = subprocess.run(["git", "-C", "/repo", "apply", patch], capture_output=True, text=True)
    if r.returncode != 0:
        print("patch does not apply: " + r.stderr); sys.exit(2)
    results = {}
    try:
        for c in checks:
            p = subprocess.run([os.path.join(VERIF, "bin", "check"), c, "quick"], capture_output=True, text=True, cwd=VERIF)
            line = [l for l in p.stdout.split("\n") if l.startswith("VIOLATION") or l.startswith("OK ")]
            results[c] = (p.returncode, line[-1] if line else p.stdout[-200:])
            print(c, "exit", p.returncode, results[c][1])
    finally:
        subprocess.run(["git", "-C", "/repo", "checkout", "--", "."], check=True)
        # rebuild the harness against the restored tree so that later runs start clean
    caught = [c for c, (rc, _) in results.items() if rc != 0]
    print("CAUGHT BY:", caught or "nothing")
    return results

if __name__ == "__main__":
    main()
