"""C16, knapsack example: correspondence between the Coq model of the shipped example (coq/theories/Knapsack.v, about which the
solver theorem is instantiated: kp_C01) and the example's own source compiled into the harness (harness/src/kp.rs)."""
import itertools, os, re
from common import *
from gen import Rng
import exgen

KPEXTRACT = os.path.join(VERIF, ".build", "kpextract")
KPMODEL = os.path.join(KPEXTRACT, "kpmodel")
PINNED = ["C16_knapsack_model_solved_optimally", "C16_knapsack_model_solved_optimally_NoDupFringe", "C16_knapsack_dp_is_the_knapsack_problem",
          "C16_knapsack_rough_bound_admissible", "C16_knapsack_premises_hold", "C16_knapsack_unsorted_items_give_wrong_optimum",
          "C16_knapsack_example_instance"]


def build_kpmodel():
    ok, out = coq_make(["theories/Knapsack.vo"])
    if not ok: return False, out[-3000:]
    with Lock("kpextract"):
        os.makedirs(KPEXTRACT, exist_ok=True)
        srcs = [os.path.join(COQ, "theories", "Knapsack.vo"), os.path.join(COQ, "theories", "ExtractKp.v"), os.path.join(VERIF, "extract", "kpdriver.ml")]
        if os.path.exists(KPMODEL) and all(os.path.getmtime(s) <= os.path.getmtime(KPMODEL) for s in srcs): return True, ""
        p = run(["coqc", "-Q", os.path.join(COQ, "theories"), "DDO", os.path.join(COQ, "theories", "ExtractKp.v")], cwd=KPEXTRACT, timeout=900)
        if p.returncode != 0: return False, p.stdout[-3000:]
        run(["cp", os.path.join(VERIF, "extract", "kpdriver.ml"), KPEXTRACT], check=True)
        p = run(["ocamlfind", "ocamlopt", "-O2", "-w", "-a", "kpmodel.mli", "kpmodel.ml", "kpdriver.ml", "-o", "kpmodel"], cwd=KPEXTRACT, timeout=900)
        if p.returncode != 0: return False, p.stdout[-3000:]
        return True, ""


def parse_instance(text):
    ls = [l for l in text.split("\n") if l.strip() and not l.startswith("c")]
    n, cap = [int(x) for x in ls[0].split()]
    items = [tuple(int(x) for x in l.split()) for l in ls[1:1 + n]]
    return cap, items


def queries(r, n):
    """decision prefixes: every prefix of length <= 4, random longer ones; groups of prefixes of one length for merge / ranking"""
    qs = []
    for k in range(0, min(n, 4) + 1):
        for vals in itertools.product((1, 0), repeat=k): qs.append(list(vals))
    for _ in range(30):
        k = r.range(0, n); qs.append([r.choice([0, 1, 1]) for _ in range(k)])
    gs = []
    for _ in range(12):
        k = r.range(0, n); m = r.range(1, 4)
        gs.append([[r.choice([0, 1]) for _ in range(k)] for _ in range(m)])
    return qs, gs


def kp_correspondence(chk, rng, tier):
    """returns the coverage dict of this component; violations are added to chk"""
    stats = {"instances": 0, "queries": 0, "agree": 0, "disagree": 0, "invalid_prefixes": 0, "merges": 0, "instances_wf": 0, "sorted_premise_checked": 0}
    ok, msg = build_kpmodel()
    if not ok:
        chk.violation("unproved", "the model of the knapsack example does not build: " + msg, {"build": msg}); return stats
    ok, msg = build_harness()
    if not ok:
        chk.violation("unproved", "harness does not build: " + msg, {"build": msg}); return stats
    n_inst = 60 if tier == "quick" else 600
    insts = [exgen.gen_knapsack(rng.fork(), i) for i in range(n_inst)] + [i for i in exgen.corpus("knapsack")]
    dis = []
    implfile = workfile("c16kp_impl_kp_0.txt"); lines = []; plan = []
    for ins in insts:
        cap, items = parse_instance(ins["text"])
        if any(w < 0 for _, w in items) or cap < 0: continue
        r = rng.fork(); qs, gs = queries(r, len(items))
        lines.append("K %d %d %s" % (cap, len(items), " ".join("%d %d" % it for it in items)))
        lines += ["Q " + " ".join(map(str, q)) for q in qs] + ["G " + " | ".join(" ".join(map(str, g)) for g in grp) for grp in gs]
        plan.append((ins, cap, items, qs, gs))
    open(implfile, "w").write("\n".join(lines) + "\n")
    oi, _ = run_impl("kp", implfile)
    # second phase: the model is given the items in the order the code decides them
    pos = 0; mlines = []; orders = []
    for (ins, cap, items, qs, gs) in plan:
        m = re.match(r"K order=([\d,]*) nvars=(\d+) past_end=(\w+)", oi[pos] if pos < len(oi) else "")
        if not m:
            chk.violation("unproved", "knapsack example: unexpected answer of the harness: %s" % (oi[pos] if pos < len(oi) else "MISSING"), {"instance": ins["text"]}); return stats
        order = [int(x) for x in m.group(1).split(",")] if m.group(1) else []
        orders.append((order, int(m.group(2)), m.group(3)))
        mlines.append("K %d %d %s" % (cap, len(items), " ".join("%d %d" % items[i] for i in order)))
        mlines += ["Q " + " ".join(map(str, q)) for q in qs] + ["G " + " | ".join(" ".join(map(str, g)) for g in grp) for grp in gs]
        pos += 1 + len(qs) + len(gs)
    modelfile = workfile("c16kp_model_kp_0.txt"); open(modelfile, "w").write("\n".join(mlines) + "\n")
    p = subprocess.run([KPMODEL, modelfile], stdout=subprocess.PIPE, stderr=subprocess.PIPE, text=True, timeout=1800)
    if p.returncode != 0:
        chk.violation("unproved", "the extracted knapsack model failed: " + p.stderr[-500:], {}); return stats
    om = p.stdout.split("\n")
    pos = 0
    for (ins, cap, items, qs, gs), (order, nvars, past_end) in zip(plan, orders):
        stats["instances"] += 1
        km = re.match(r"K wf=(\w+) sorted=(\w+) brute=(\S+)", om[pos])
        ctx = {"instance": ins["text"], "shape": ins["shape"], "order_chosen_by_Knapsack_new": order}
        if sorted(order) != list(range(len(items))) or nvars != len(items) or past_end != "true":
            dis.append(("order", "next_variable does not enumerate every item exactly once: %s" % order, ctx))
        if km and km.group(1) == "true":
            stats["instances_wf"] += 1; stats["sorted_premise_checked"] += 1
            if km.group(2) != "true":
                dis.append(("premise", "the order computed by Knapsack::new does not satisfy the premise sorted_by_ratio of theorem kp_C01 "
                                       "(items in decision order: %s)" % [items[i] for i in order], ctx))
        for j in range(1, 1 + len(qs) + len(gs)):
            a = oi[pos + j] if pos + j < len(oi) else "MISSING"; b = om[pos + j] if pos + j < len(om) else "MISSING"
            stats["queries"] += 1
            if a.startswith("G"): stats["merges"] += 1
            if a.endswith("invalid"): stats["invalid_prefixes"] += 1
            if a == b: stats["agree"] += 1
            else:
                stats["disagree"] += 1
                q = (["Q " + " ".join(map(str, q)) for q in qs] + ["G " + " | ".join(" ".join(map(str, g)) for g in grp) for grp in gs])[j - 1]
                dis.append(("behaviour", "knapsack example and its Coq model differ on `%s`: code `%s`, model `%s`" % (q, a, b), dict(ctx, query=q, impl=a, model=b)))
        pos += 1 + len(qs) + len(gs)
    stats["disagreements"] = len(dis)
    return stats, dis
