from check_mdd import *
import subprocess, sys
import concurrent.futures
rng=Rng(int(sys.argv[1]) if len(sys.argv)>1 else 77)
NI=int(sys.argv[2]) if len(sys.argv)>2 else 60
def kvp(l):
    d={}
    for x in l[2:].split():
        if '=' in x:
            k,_,v=x.partition('=')
            if k not in d: d[k]=v
    return d
cases=[]
for t in range(NI):
    I = gen_layered(rng.fork(), nvars=rng.range(4,6), per_layer=rng.range(2,4), dom_max=rng.range(2,3), dominance=0, rub=rng.choice([0,1,2]))
    for threads in (2,3):
        for flv,cache,fr,w in ((0,0,0,1),(1,0,1,1),(0,1,0,1)):
            for cut in [0]+list(range(2,40,3)):
                ch=" ".join(str(rng.below(3)) for _ in range(rng.range(5,60)))
                cases.append((I,"PS 1 %d %d %d %d %d %d %d 0 0 | %s"%(threads,threads,flv,cache,fr,w,cut,ch)))
def work(i):
    I,case=cases[i]
    f='/dev/shm/ps_%d.txt'%i
    open(f,'w').write(I.line()+"\n"+case+"\nO opt\n")
    try:
        oi=subprocess.run([HARNESS_BIN,"par",f],capture_output=True,text=True,timeout=30).stdout.strip()
    except subprocess.TimeoutExpired:
        oi="P TIMEOUT"
    om=subprocess.run([MODEL_BIN,"par",f],capture_output=True,text=True,timeout=60).stdout.strip()
    opt=subprocess.run([MODEL_BIN,"oracle",f],capture_output=True,text=True).stdout.strip()[2:]
    os.remove(f)
    return oi,om,opt
with concurrent.futures.ThreadPoolExecutor(max_workers=16) as ex:
    res=list(ex.map(work,range(len(cases))))
bad=0; viol=0
for (I,case),(oi,om,opt) in zip(cases,res):
    fi=kvp(oi); fm=kvp(om)
    keys=['end','x','bv','lb','ub','trace']
    if fm.get('tie')=='1': keys=['end','x','bv','lb','ub']
    if not all(fi.get(k)==fm.get(k) for k in keys):
        bad+=1
        if bad<=2: print("DIFF",case); print(" I:",oi[:500]); print(" M:",om[:500])
    if fi.get('end')!='finished':
        viol+=1
        if viol<=3: print("NOTFINISHED",case,oi[:300])
    elif (opt!='none' and not (int(fi['lb'])<=int(opt)<=int(fi['ub']))) or (fi.get('x')=='1' and fi.get('bv')!=opt):
        viol+=1
        if viol<=3: print("BOUNDS",opt,case); print(I.line()); print(" I:",oi[:500])
print(len(cases),"modeldiff",bad,"violations",viol)
