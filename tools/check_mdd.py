"""Diagram-level checks (C06 C07 C08 C12 C13 C20): one shared stream of compilations."""
import re
from common import *
from gen import *

FLV = {0: "LEL", 1: "FC", 2: "Pooled"}
CT = {0: "Exact", 1: "Relaxed", 2: "Restricted"}


def roots_of(I, rng, maxroots):
    """Exact sub-problem roots of instance I: (depth, base, value, path) reached by random walks + the root itself."""
    roots = [(0, I.init, I.initval, [])]
    seen = {(0, I.init, I.initval)}
    for _ in range(maxroots * 3):
        k, b, v, path = 0, I.init, I.initval, []
        steps = rng.range(1, max(1, I.nvars - 1))
        ok = True
        for _ in range(steps):
            if k >= I.nvars: break
            rows = I.rows(I.order[k], b)
            if not rows: ok = False; break
            (val, d, c) = rng.choice(rows)
            path = path + [(I.order[k], val)]; v += c; b = d; k += 1
        if ok and (k, b, v) not in seen and k < I.nvars:
            seen.add((k, b, v)); roots.append((k, b, v, path))
        if len(roots) >= maxroots: break
    if rng.chance(1, 3):
        # a COMPLETE assignment as root (depth = nb_vars): the compilation has nothing to branch on; only reachable through the
        # public API (the solvers never hand out such a sub-problem), but "any exact sub-problem" includes it
        k, b, v, path = 0, I.init, I.initval, []
        while k < I.nvars:
            rows = I.rows(I.order[k], b)
            if not rows: break
            (val, d, c) = rng.choice(rows)
            path = path + [(I.order[k], val)]; v += c; b = d; k += 1
        if k == I.nvars and I.nvars > 0: roots.append((k, b, v, path))
    return roots


def mline(flv, ct, width, lb, usecache, usedom, cutk, root):
    k, b, v, path = root
    p = " ".join("%d %d" % (x, val) for x, val in path)
    return "M %d %d %d %d %d %d %d %d %d 1 %d %d %s" % (flv, ct, width, lb, usecache, usedom, cutk, k, v, b, len(path), p)


def parse_fields(line):
    """'M ok # cx=.. cv=.. # x=1 # bv=.. # ...' -> dict"""
    if not line.startswith("M "): return {"raw": line}
    parts = line[2:].split(" # ")
    d = {"status": parts[0], "raw": line}
    for p in parts[1:]:
        if "=" in p:
            k, _, v = p.partition("=")
            if k.startswith("cx"):
                m = re.match(r"cx=(\d) cv=(\S+)", p); d["cx"] = m.group(1); d["cv"] = m.group(2)
            else:
                d[k] = v
    return d


def canon_log(s):
    """sort every maximal run of consecutive CG events and of CU events (hash-map iteration order)"""
    ev = s.split(" ; ") if s else []
    out = []; run = []; kind = None
    for e in ev:
        k = e[:2] if e[:2] in ("CG", "CU") else None
        if k != kind:
            out.extend(sorted(run)); run = []; kind = k
        if k: run.append(e)
        else: out.append(e)
    out.extend(sorted(run))
    return out


def split_alts(model_line):
    """model line: alternatives ' || ' (tie-break oracle), each with its own ' # POLLS=.. # LOG=..' suffix"""
    body = model_line[2:] if model_line.startswith("M ") else model_line
    return ["M " + a for a in body.split(" || ")]


GATE = {
    "C06": ["status", "cx", "cv", "x", "bv", "ev", "es", "DOT"],
    "C07": ["status", "cx", "cv", "x", "bv", "bs", "DOT"],
    "C08": ["status", "x", "CS", "DOT"],
    "C12": ["status", "LOG"],
    "C13": ["status", "LOG"],
    "C20": ["status", "DOT"],
}


def canon_dot(s):
    """Pooled keeps its last layer in hash-map order: sort the run of `id -> terminal` lines."""
    if s is None: return s
    lines = s.split("@@")
    idx = [i for i, l in enumerate(lines) if l.endswith("-> terminal;") or l.endswith("-> terminal [penwidth=3];")]
    if idx:
        blk = sorted(lines[idx[0]:idx[-1] + 1], key=lambda l: int(l[2:].split()[0]))
        lines[idx[0]:idx[-1] + 1] = blk
    return "@@".join(lines)


def same_on(fi, fm, keys):
    for k in keys:
        a = fi.get(k); b = fm.get(k)
        if k == "LOG":
            if canon_log(a or "") != canon_log(b or ""): return k
        elif k == "DOT":
            if canon_dot(a) != canon_dot(b): return k
        elif a != b: return k
    return None


class Stream:
    """Generates instances + compile cases, runs both sides, parses."""
    def __init__(self, chk, tier, types, widths=(1, 2, 3), flavours=(0, 1, 2), ninst=None, with_viz=False, longarcs=False, stores=False, only_longarcs=False):
        self.chk = chk
        rng = Rng(chk.seed)
        n = ninst if ninst is not None else (150 if tier == "quick" else 4000)
        self.blocks = []; self.meta = []
        if with_viz:
            # corpus first: minimised witnesses of defects found earlier (root sub-problem, every flavour and type, all 64 flag sets)
            import glob
            for f in sorted(glob.glob(os.path.join(VERIF, "corpus", "C20", "*.txt"))):
                il = [l for l in open(f).read().split("\n") if l.startswith("I ")]
                if not il: continue
                I = Inst.parse(il[0]); root = (0, I.init, I.initval, [])
                lines = [I.line()]; metas = [None]
                for flv in flavours:
                    if flv != 2 and I.notimp: continue
                    for ct in types:
                        lines.append(mline(flv, ct, 1, IMIN, 0, 0, 0, root))
                        metas.append({"inst": -2, "root": root, "flv": flv, "ct": ct, "w": 1, "lb": IMIN, "vstar": None})
                        for fl in range(64):
                            lines.append("V %d %d" % (flv, fl)); metas.append({"viz": fl, "of": len(lines) - 2})
                self.blocks.append(lines); self.meta.append((I, metas))
        for i in range(n):
            r = rng.fork()
            kind = i % 6
            if kind == 5 and not only_longarcs and not stores:
                I = gen_relaxed_improves(r)      # relaxed diagram inexact yet improving / exact by the exact-best-path rule with several terminals
            elif only_longarcs:
                I = gen_layered(r, nvars=r.range(4, 6), per_layer=r.range(2, 4), depth_free=True, irrelevance=True, dominance=0)
            elif kind == 4 and longarcs:
                I = gen_layered(r, nvars=r.range(3, 5), per_layer=r.range(2, 4), depth_free=True, irrelevance=True, dominance=0)
            elif kind == 3:
                I = gen_layered(r, nvars=r.range(2, 4), per_layer=2, dom_max=2, dominance=0)
            elif kind == 2 and not stores:
                I = gen_chain(r, nvars=r.range(4, 6), per_layer=r.range(3, 5), dom_max=r.range(1, 3))    # merge result is a real state: recycling
            elif stores and longarcs and i % 2 == 0:
                # long arcs WITH shared stores (pooled flavour only): nodes below a long arc must consult the cache under their layer's depth
                I = gen_layered(r, nvars=r.range(4, 6), per_layer=r.range(2, 4), dom_max=2, depth_free=True, irrelevance=True, dominance=0)
            elif stores and i % 4 == 3:
                I = gen_topmerge(r)
            elif stores:
                I = gen_layered(r, nvars=r.range(5, 7), per_layer=r.range(3, 5), dom_max=r.range(2, 3), dominance=r.choice([0, 0, 1, 2]),
                                rub=r.choice([3, 3, 2, 0]), dead=r.chance(1, 3))
            else:
                I = gen_layered(r, nvars=r.range(4, 6), per_layer=r.range(3, 5), dom_max=r.range(2, 3), dominance=0)
            H = I.hbase()
            roots = roots_of(I, r, 3 if tier == "quick" else 6)
            lines = [I.line()]; metas = [None]
            for root in roots:
                k, b, v, path = root
                hv = H[k][b]
                vstar = None if hv is None else v + hv
                lbs = [IMIN]
                if vstar is not None: lbs += [vstar - 2, vstar, vstar + 1] + (list(range(vstar - 12, vstar, 3)) if stores else [])
                else: lbs += [0]
                if stores:
                    # like the solvers: restricted then relaxed compilation of one sub-problem on fresh stores, then one more
                    # sub-problem on the stores left behind (thresholds / dominance entries of the first one filter the second)
                    for flv in flavours:
                        if flv != 2 and I.notimp: continue
                        for w in widths:
                            for lb in lbs:
                                ud = 1 if I.domkind == 1 else 0
                                lines.append("RS")
                                for rt in (root, roots[(roots.index(root) + 1) % len(roots)]):
                                    for ct in (2, 1):
                                        lines.append(mline(flv, ct, w, lb, 1, ud, 0, rt))
                                        metas.append({"inst": i, "root": rt, "flv": flv, "ct": ct, "w": w, "lb": lb, "vstar": None})
                    continue
                for flv in flavours:
                    if flv != 2 and I.notimp: continue      # plain diagrams expand every state on every variable; long arcs are C15
                    for ct in types:
                        for w in widths:
                            for lb in (lbs if ct != 0 else lbs[:2]):
                                uc, ud = (0, 0)
                                lines.append(mline(flv, ct, w, lb, uc, ud, 0, root))
                                metas.append({"inst": i, "root": root, "flv": flv, "ct": ct, "w": w, "lb": lb, "vstar": vstar})
                                if with_viz:
                                    for fl in range(64):
                                        lines.append("V %d %d" % (flv, fl)); metas.append({"viz": fl, "of": len(lines) - 2})
            self.blocks.append(lines); self.meta.append((I, metas))

    def run(self):
        shards, oi = run_sharded("impl", "mdd", self.blocks, tag=self.chk.pid)
        _, om = run_sharded("model", "mdd", self.blocks, tag=self.chk.pid)
        self.results = []   # per block: list of (meta, impl_line, model_line)
        self.tainted = 0
        res = [None] * len(self.blocks)
        for k in range(len(shards)):
            pi = 0; pm = 0
            for (idx, blk) in shards[k]:
                n = sum(1 for l in blk[1:] if l[:2] in ("M ", "V "))
                res[idx] = (oi[k][pi:pi + n], om[k][pm:pm + n]); pi += n; pm += n
        for idx, (I, metas) in enumerate(self.meta):
            il, ml = res[idx]
            rows = []
            cases = [l for l in self.blocks[idx][1:] if l[:2] in ("M ", "V ")]
            for j, meta in enumerate(metas[1:]):
                if j < len(ml) and ml[j] == "M TAINTED":
                    # an earlier compilation of this store epoch had a tie among equally valued terminal nodes whose resolution
                    # changes the stores left behind: the model cannot follow the implementation's choice line by line
                    self.tainted += 1; continue
                rows.append((meta, il[j] if j < len(il) else "MISSING", ml[j] if j < len(ml) else "MISSING", cases[j]))
            self.results.append((I, rows))
        return self.results


def oracle_batch(queries):
    """queries: list of (inst_line, [oracle lines]) -> list of list of answers"""
    blocks = [[il] + qs for il, qs in queries]
    shards, out = run_sharded("model", "oracle", blocks, tag="oracle")
    res = [None] * len(blocks)
    for k in range(len(shards)):
        p = 0
        for (idx, blk) in shards[k]:
            n = len(blk) - 1
            res[idx] = [l[2:] for l in out[k][p:p + n]]; p += n
    return res


def correspondence(chk, results, gate_keys):
    """(B) implementation vs model on the gated observables, any tie-break alternative accepted. Returns (agree, disagreements)."""
    agree = 0; dis = []
    for I, rows in results:
        for meta, li, lm, case in rows:
            if "viz" in meta:
                if canon_dot(li) == canon_dot(lm): agree += 1
                else: dis.append((I, meta, li, lm, case, "DOT"))
                continue
            fi = parse_fields(li)
            ok = False; why = None
            for alt in split_alts(lm):
                fm = parse_fields(alt)
                w = same_on(fi, fm, gate_keys)
                if w is None: ok = True; break
                why = why or w
            if ok: agree += 1
            else: dis.append((I, meta, li, lm, case, why))
    return agree, dis


def dec_list(s):
    if s in ("none", "", None): return []
    return [tuple(int(x) for x in d.split("=")) for d in s.split(";")]


def replay_py(I, decs):
    """replay through the BASE system from the root (exact states are singletons): returns (base, value, depth) or None"""
    b, v = I.init, I.initval
    for (x, val) in decs:
        nxt = [(d, c) for (vv, d, c) in I.rows(x, b) if vv == val]
        if not nxt: return None
        dsts = set(d for d, c in nxt)
        if len(dsts) != 1: return None
        v += max(c for d, c in nxt); b = nxt[0][0]
    return (b, v)


def full_replay_ok(I, decs, expect_value, root_path_len=None):
    """decision list in arbitrary order w.r.t. the static variable order: sort by position in I.order, then replay"""
    pos = {x: k for k, x in enumerate(I.order)}
    if len(set(x for x, _ in decs)) != len(decs): return False, "two decisions on one variable"
    ds = sorted(decs, key=lambda d: pos[d[0]])
    if I.notimp and ds:
        # long arcs: variables skipped by the pooled diagram carry the implied neutral decision (value 0, state unchanged)
        given = dict(ds); last = max(pos[x] for x, _ in ds)
        full = []; b = I.init
        for k in range(last + 1):
            x = I.order[k]
            if x in given: val = given[x]
            elif (x, b) in set(I.notimp): val = 0
            else: return False, "variable %d is missing although state %d is impacted by it" % (x, b)
            nxt = [d for (vv, d, c) in I.rows(x, b) if vv == val]
            if not nxt: return False, "a decision is outside the domain of its variable in the state reached"
            b = nxt[0]; full.append((x, val))
        ds = full
    # must be a prefix-closed assignment of the first len(ds) variables in order
    if [x for x, _ in ds] != I.order[:len(ds)]: return False, "variables are not the first %d of the order" % len(ds)
    r = replay_py(I, ds)
    if r is None: return False, "a decision is outside the domain of its variable in the state reached"
    if r[1] != expect_value: return False, "replay yields %d, reported %d" % (r[1], expect_value)
    return True, r


# ================================================================================ property oracles (A)
def parse_cutset(s):
    """'(depth,[b],value,ub,path) (..)' -> list of dicts"""
    out = []
    for m in re.finditer(r"\((\d+),\[([\d,]*)\],(-?\d+),(-?\d+),([^)]*)\)", s or ""):
        st = [int(x) for x in m.group(2).split(",")] if m.group(2) else []
        out.append({"depth": int(m.group(1)), "state": st, "value": int(m.group(3)), "ub": int(m.group(4)), "path": dec_list(m.group(5))})
    return out


class Oracle:
    """Batched access to the extracted Coq specification (opt_enum_from, enum_from)."""
    def __init__(self):
        self.q = {}      # inst index -> (inst_line, list of query strings)
        self.ans = {}
    def ask(self, ii, I, query):
        ent = self.q.setdefault(ii, (I.line(), []))
        if query not in ent[1]: ent[1].append(query)
    def run(self):
        keys = sorted(self.q)
        res = oracle_batch([self.q[k] for k in keys])
        for k, r in zip(keys, res):
            for qs, a in zip(self.q[k][1], r):
                self.ans[(k, qs)] = a
    def get(self, ii, query):
        return self.ans.get((ii, query))
    @staticmethod
    def num(a):
        return None if a in (None, "none") else int(a)


def q_from(k, v, st):
    return "O from %d %d %d %s" % (k, v, len(st), " ".join(map(str, st)))
def q_enum(k, v, st):
    return "O enum %d %d %d %s" % (k, v, len(st), " ".join(map(str, st)))


def states_along(I, root, decs):
    """base states visited after each decision of a completion starting at the root sub-problem"""
    k, b, v, path = root
    out = []
    for (x, val) in decs:
        nxt = [d for (vv, d, c) in I.rows(x, b) if vv == val]
        if not nxt: return None
        b = nxt[0]; k += 1; out.append((k, b))
    return out


def eval_diagram_properties(results, want):
    """Evaluates the clauses of C06/C07/C08 directly on the implementation's answers with the extracted
    specification as oracle. Returns list of (pid, clause, message, case) failures and statistics."""
    orc = Oracle()
    parsed = []
    for ii, (I, rows) in enumerate(results):
        for meta, li, lm, case in rows:
            if "viz" in meta: continue
            fi = parse_fields(li)
            k, b, v, path = meta["root"]
            orc.ask(ii, I, q_from(k, v, [b]))
            cs = parse_cutset(fi.get("CS")) if meta["ct"] == 1 else []
            for c in cs:
                orc.ask(ii, I, q_from(c["depth"], c["value"], c["state"]))
            if meta["ct"] == 1 and fi.get("x") == "0" and "C08" in want:
                orc.ask(ii, I, q_enum(k, v, [b]))
            parsed.append((ii, I, meta, fi, cs, li, case, lm))
    orc.run()
    fails = []
    stats = {"relaxed": 0, "relaxed_inexact": 0, "relaxed_merged_but_exact": 0, "restricted": 0, "restricted_truncated": 0, "exact": 0,
             "cutset_nodes": 0, "infeasible_roots": 0, "completions_checked_for_cover": 0, "crash": 0}
    nontriv = set()
    for ii, I, meta, fi, cs, li, case, lm in parsed:
        k, b, v, path = meta["root"]; lb = meta["lb"]; ct = meta["ct"]; flv = meta["flv"]
        ctx = {"instance": I.line(), "case": case, "impl": li[:600], "flavour": FLV[flv], "type": CT[ct], "width": meta["w"], "lb": lb}
        if fi.get("status") != "ok":
            stats["crash"] += 1
            fails.append(("ALL", "total", "compilation did not complete: %s" % li[:80], ctx)); continue
        vstar = Oracle.num(orc.get(ii, q_from(k, v, [b])))
        if vstar is None: stats["infeasible_roots"] += 1
        num = lambda s: None if s in (None, "none") else int(s)
        bv, ev, x = num(fi.get("bv")), num(fi.get("ev")), fi.get("x") == "1"
        beats = vstar is not None and vstar > lb
        if ct == 1:
            stats["relaxed"] += 1
            if "square" in fi.get("DOT", ""): nontriv.add(case)
            if not x: stats["relaxed_inexact"] += 1
            elif "yellow" in fi.get("DOT", "") or "square" in fi.get("DOT", ""): stats["relaxed_merged_but_exact"] += 1
            # C06 bound
            if beats and (bv is None or bv < vstar):
                fails.append(("C06", "bound", "relaxed best value %s is below the completion optimum %d (which beats the incumbent %d)" % (bv, vstar, lb), ctx))
            if x:
                es = dec_list(fi.get("es"))
                if ev is not None:
                    ok, why = full_replay_ok(I, es, ev)
                    if not ok: fails.append(("C06", "exact-solution", "diagram claims exactness but its best exact solution does not replay: %s" % why, ctx))
                    elif es[:len(path)] != path and sorted(es)[:0] == []:   # must extend the root path
                        if not all(d in es for d in path): fails.append(("C06", "exact-solution", "best exact solution does not extend the root path", ctx))
                if beats and ev != vstar:
                    fails.append(("C06", "exact-value", "diagram claims exactness but best exact value %s != sub-problem optimum %d" % (ev, vstar), ctx))
            else:
                # C08
                seen_cover = set()
                for c in cs:
                    stats["cutset_nodes"] += 1
                    ok, r = full_replay_ok(I, c["path"], c["value"])
                    if not ok:
                        fails.append(("C08", "i-exact", "cut-set node %s: path does not replay to its value: %s" % (c, r), ctx)); continue
                    if len(c["state"]) != 1 or r[0] != c["state"][0]:
                        fails.append(("C08", "i-exact", "cut-set node %s: path leads to base state %s, not to its state" % (c, r[0]), ctx))
                    if not I.notimp and c["depth"] != len(c["path"]):
                        fails.append(("C08", "i-exact", "cut-set node %s: depth differs from the number of decisions on its path" % c, ctx))
                    if c["depth"] <= k or (c["depth"] == k and c["state"] == [b]):
                        fails.append(("C08", "ii-progress", "cut-set node %s is not strictly deeper than the root sub-problem (depth %d)" % (c, k), ctx,
                                      # known finding D1 only where the MODEL of the unchanged code hands out the same node
                                      "pooled-longarc-subproblem-in-own-cutset" if (flv == 2 and I.notimp and any(
                                          (c["depth"], c["state"], c["value"]) == (m2["depth"], m2["state"], m2["value"])
                                          for alt in split_alts(lm) for m2 in parse_cutset(parse_fields(alt).get("CS")))) else None))
                    cstar = Oracle.num(orc.get(ii, q_from(c["depth"], c["value"], c["state"])))
                    if cstar is not None and cstar > lb and c["ub"] < cstar:
                        fails.append(("C08", "iii-bound", "cut-set node %s has ub %d below its best completion %d (beats incumbent %d)" % (c, c["ub"], cstar, lb), ctx))
                    seen_cover.add((c["depth"], c["state"][0] if c["state"] else None))
                if "C08" in want:
                    en = orc.get(ii, q_enum(k, v, [b])) or ""
                    for item in en.split():
                        ds, _, val = item.rpartition(":")
                        val = int(val)
                        if val > lb and (ev is None or val > ev):
                            stats["completions_checked_for_cover"] += 1
                            sts = states_along(I, meta["root"], dec_list(ds))
                            if sts is not None: sts = [(k, b)] + sts      # the root sub-problem itself may be handed out (pooled, finding D1)
                            if sts is None or not any(s in seen_cover for s in sts):
                                fails.append(("C08", "iv-cover", "completion %s (value %d) beats incumbent %d and best exact value %s but passes through no cut-set node" % (ds, val, lb, ev), ctx))
                                break
        else:
            stats["restricted" if ct == 2 else "exact"] += 1
            if ct == 2 and not x:
                stats["restricted_truncated"] += 1; nontriv.add(case)
            if bv is not None:
                if vstar is None or bv > vstar:
                    fails.append(("C07", "lower-bound", "%s diagram reports %d above the sub-problem optimum %s" % (CT[ct], bv, vstar), ctx))
                ok, why = full_replay_ok(I, dec_list(fi.get("bs")), bv)
                if not ok: fails.append(("C07", "feasible", "%s diagram: best solution does not replay to the reported value: %s" % (CT[ct], why), ctx))
            if (x or ct == 0) and beats and bv != vstar:
                fails.append(("C07", "exact", "%s diagram (declared exact / exact mode) reports %s, optimum is %d > incumbent %d" % (CT[ct], bv, vstar, lb), ctx))
    return fails, stats, nontriv


# ================================================================================ the checks
PINNED = {   # theorem names pinned per property (files Props/Cxx.v and, where it exists, Props/Cxxu.v)
    "C06": ["C06_best_exact_solution_is_genuine", "C06_exact_claim_implies_clean_chain",
            "C06_relaxed_value_is_an_upper_bound", "C06_exactness_claim_is_truthful", "C06_holds_on_table_family_bound",
            "C06_holds_on_table_family_exact", "C06_example_strict_gap", "C06_example_exact_claim"],
    "C07": ["C07_best_solution_replays_to_best_value", "C07_replay_is_the_true_sum_without_overflow", "C07_compile_never_uses_dangling_ids",
            "C07_restricted_value_is_feasible", "C07_restricted_value_is_a_lower_bound", "C07_exact_mode_yields_the_optimum",
            "C07_best_exact_value_is_a_lower_bound", "C07_holds_on_table_family", "C07_holds_on_table_family_exact_mode", "C07_example_strict_gap"],
    "C08": ["C08_cutset_nodes_are_exact", "C08_cutset_upper_bounds_are_valid", "C08_cutset_covers_the_optimum", "C08_cutset_nodes_are_strictly_deeper",
            "C08_cutset_is_bounded", "C08_holds_on_table_family_bounds", "C08_holds_on_table_family_cover", "C08_example_cover"],
    "C12": ["C12_callback_protocol", "C12_relax_only_on_genuine_arcs", "C12_next_variable_depths",
            "C12_callbacks_only_on_states_of_the_layer", "C12_log_starts_with_next_variable", "C12_example_merged_state_is_expanded",
            "C12_checker_rejects_foreign_state"],
    "C20": ["C20_as_graphviz_total", "C20_layers_never_empty", "C20_as_graphviz_is_the_rendered_statement_list", "C20_as_graphviz_faithful",
            "C20_as_graphviz_line_syntax", "C20_declared_exactly_once", "C20_terminal_iff", "C20_example"],
    "C13": ["C13_restricted_width", "C13_relaxed_width_clean", "C13_times_debug_nonzero", "C13_times_release_nonzero",
            "C13_times_release_stays_usize", "C13_divby_nonzero",
            "C13_relaxed_width_pooled", "C13_exempting_two_layers_is_necessary", "C13_all_impacted_premise_is_necessary", "C13_example_pooled"],
}
PROPFILES = {"C06": "C06+C06u", "C07": "C07+C07u", "C08": "C08+C08u", "C12": "C12+C12u", "C13": "C13+C13u", "C20": "C20+C20u"}
LEVEL = {"C06": "proof", "C07": "proof", "C08": "proof", "C12": "proof", "C13": "proof", "C20": "proof"}
OPEN = {
    "C06": ["pooled flavour, and compilations with a cache / dominance rule: correspondence + oracle only",
            "histories of one diagram object: the model compiles from a cleared diagram (the implementation side of the correspondence re-uses one object)"],
    "C07": ["pooled flavour, and compilations with a cache / dominance rule: correspondence + oracle only"],
    "C08": ["pooled flavour: correspondence + oracle only ((ii) is false there: finding D1)"],
    "C12": [],
    "C13": [],
    "C20": ["DOT well-formedness against a grammar (the theorem is line-level: header / footer, `;`-terminated lines, quote parity); validated by the DOT reader of the check"],
}


def build_all(chk):
    for b, what in ((build_harness(), "harness"), (build_model(), "model driver")):
        if not b[0]:
            chk.violation("unproved", what + " does not build: " + b[1], {"build": b[1]}); return False
    return True


def protocol_failures(I, meta, fi):
    """C12 / C13 evaluated directly on the implementation's call log."""
    fails = []
    ev = (fi.get("LOG") or "").split(" ; ")
    k0 = meta["root"][0]
    nv_count = 0; cur_var = None; cur_layer = None; dom_in_layer = 0; layer_idx = -1
    last_T = None; last_dom = None; last_merge = None; merged_here = set()
    costs = {}
    width = meta["w"]; ct = meta["ct"]; flv = meta["flv"]
    per_layer = []
    for e in ev:
        if not e: continue
        t = e.split()
        if t[0] == "NV":
            if layer_idx >= 0: per_layer.append(dom_in_layer)
            depth = int(t[1])
            if depth != k0 + nv_count:
                fails.append(("C12", "next_variable called with depth %d, expected %d" % (depth, k0 + nv_count)))
            nv_count += 1; layer_idx += 1; dom_in_layer = 0
            m = re.search(r"\{(.*)\}", e); cur_layer = set(m.group(1).split()) if m else set()
            cur_var = t[-1]; last_dom = None; merged_here = set()
        elif t[0] == "DOM":
            dom_in_layer += 1
            if t[1] != cur_var: fails.append(("C12", "domain enumerated for variable %s, next_variable selected %s" % (t[1], cur_var)))
            if flv != 2 and t[2] not in cur_layer and t[2] not in merged_here:
                fails.append(("C12", "domain enumerated for state %s which is not in the current layer %s" % (t[2], sorted(cur_layer))))
            last_dom = (t[1], t[2])
        elif t[0] == "T":
            if last_dom is None or t[1] != last_dom[1] or t[2].split("=")[0] != last_dom[0]:
                fails.append(("C12", "transition(%s, %s) outside the enumeration of that state's domain" % (t[1], t[2])))
            last_T = (t[1], t[2], t[3])
        elif t[0] == "TC":
            if last_T != (t[1], t[3], t[2]):
                fails.append(("C12", "transition_cost(%s, %s, %s): dst is not transition(src, d) just computed (%s)" % (t[1], t[2], t[3], last_T)))
            costs[(t[1], t[2], t[3])] = t[4]
            last_T = None
        elif t[0] == "MERGE":
            args = e[len("MERGE "):].split(" -> ")[0].split()
            res = e.split(" -> ")[1]
            if len(args) < 2: fails.append(("C12", "merge called on fewer than two states"))
            last_merge = (set(args), res); merged_here.add(res)
        elif t[0] == "RELAX":
            src, dst, merged, d, cost = t[1], t[2], t[3], t[4], t[5]
            if last_merge is None or merged != last_merge[1]:
                fails.append(("C12", "relax called with merged=%s which is not the state just returned by merge" % merged))
            elif dst not in last_merge[0]:
                fails.append(("C12", "relax called with dst=%s which was not among the merged states" % dst))
            if costs.get((src, dst, d)) != cost:
                fails.append(("C12", "relax(%s,%s,%s,%s): cost %s is not the current cost of that arc (%s)" % (src, dst, merged, d, cost, costs.get((src, dst, d)))))
    if layer_idx >= 0: per_layer.append(dom_in_layer)
    # C13: expanded states per layer
    for li, n in enumerate(per_layer):
        if ct == 2 and n > width:
            fails.append(("C13", "restricted compilation expanded %d states in layer %d with max_width %d" % (n, li, width)))
        if ct == 1 and li >= 2 and n > width:
            fails.append(("C13", "relaxed compilation expanded %d states in layer %d (not one of the first two) with max_width %d" % (n, li, width)))
    return fails, per_layer


def dot_wellformed(dot):
    """syntactic well-formedness + exactly-once declarations + edge endpoints; returns (problems, declared, edges, terminal)"""
    s = dot.replace("@@", "\n").replace("@t", "\t")
    probs = []
    if not s.startswith("digraph {\n") or not s.endswith("}\n"): probs.append("not a `digraph { ... }`")
    if s.count('"') % 2 != 0: probs.append("unbalanced quotes")
    depth = 0; inq = False
    for ch in s:
        if ch == '"': inq = not inq
        elif not inq:
            if ch == "{": depth += 1
            elif ch == "}": depth -= 1
            if depth < 0: break
    if depth != 0: probs.append("unbalanced braces")
    declared = []; edges = []; terminal = False; tedges = []
    for line in s.split("\n"):
        m = re.match(r"^\t(\d+) \[shape=", line)
        if m: declared.append(int(m.group(1))); continue
        m = re.match(r'^\t(\d+) -> (\d+) \[penwidth=(\d),label="\(x(\d+) = (-?\d+)\)\\ncost = (-?\d+)"\];$', line)
        if m: edges.append(tuple(int(x) for x in m.groups())); continue
        if line.startswith("\tterminal ["): terminal = True; continue
        m = re.match(r"^\t(\d+) -> terminal", line)
        if m: tedges.append(int(m.group(1)))
    if len(set(declared)) != len(declared): probs.append("a node is declared twice")
    return probs, declared, edges, terminal, tedges


def check_diagram(pid, tier):
    level = LEVEL.get(pid, "other")
    chk = Check(pid, tier, level)
    if PINNED[pid]:
        pf = PROPFILES.get(pid, pid)
        pr = check_proofs(pf, PINNED[pid])
        proof_coverage(chk, pr, "make theories/Props/%s.vo && coqc on each (Print Assumptions scanned)" % pf)
    if not build_all(chk): return chk.finish()
    types = {"C06": (1,), "C07": (0, 2), "C08": (1,), "C12": (0, 1, 2), "C13": (1, 2), "C20": (0, 1, 2)}[pid]
    viz = pid == "C20"
    ninst = None
    if viz: ninst = 12 if tier == "quick" else 100
    widths = (1, 2, 3) if pid != "C13" else (1, 2, 3, 4, 5)
    st = Stream(chk, tier, types=types, widths=widths, with_viz=viz, ninst=ninst, longarcs=(pid in ("C08", "C12", "C13", "C06", "C07", "C20")))
    results = st.run()
    if not viz:
        # second phase: the sub-problems the diagrams themselves hand out (cut-set nodes of the relaxed compilations) become roots; for the pooled
        # flavour with long arcs these are sub-problems whose path is SHORTER than their depth (skipped variables carry no decision)
        seen = set(); blocks2 = []; meta2 = []
        probe = Stream(chk, tier, types=(1,), widths=(1, 2), flavours=(2, 0, 1), ninst=(40 if tier == "quick" else 300), longarcs=True, only_longarcs=True)
        depth_fails = []
        # (long-arc instances are only compiled by the pooled flavour: the clean flavours get a probe of their own, on the plain families)
        probe_clean = Stream(chk, tier, types=(1,), widths=(1, 2), flavours=(0, 1), ninst=(40 if tier == "quick" else 300))
        for (I, rows) in probe.run() + probe_clean.run():
            lines = [I.line()]; metas = [None]
            for meta, li, lm, case in rows:
                for c in parse_cutset(parse_fields(li).get("CS")):
                    if len(c["state"]) != 1: continue
                    key = (I.line(), meta["flv"], c["depth"], c["state"][0], c["value"], tuple(c["path"]))
                    if key in seen or len(lines) > 60: continue
                    seen.add(key)
                    root = (c["depth"], c["state"][0], c["value"], c["path"])
                    # the depth a sub-problem is handed out with is the depth next_variable receives when it is compiled: it must be the number of
                    # layers from the problem root = the number of decisions on its path (clean flavours: every variable is decided; pooled: at least)
                    ndec = len(c["path"])
                    if (meta["flv"] != 2 and c["depth"] != ndec) or (meta["flv"] == 2 and c["depth"] < ndec) or c["depth"] > I.nvars:
                        depth_fails.append(("C12", "depth", "cut-set sub-problem handed out with depth %d although its path decides %d variables: compiling it calls "
                                            "next_variable with a depth that is not the number of layers from the problem root" % (c["depth"], ndec),
                                            {"instance": I.line(), "case": case, "cutset_node": c, "impl": li[:1500]}))
                    for ct in types:
                        for w in (1, 2):
                            lines.append(mline(meta["flv"], ct, w, IMIN, 0, 0, 0, root))
                            metas.append({"inst": -1, "root": root, "flv": meta["flv"], "ct": ct, "w": w, "lb": IMIN, "vstar": None, "phase2": True})
            if len(lines) > 1: blocks2.append(lines); meta2.append((I, metas))
        if blocks2:
            probe.blocks = blocks2; probe.meta = meta2
            results = results + probe.run()
    if pid == "C12":
        # the protocol also holds for compilations that consult a cache and a dominance store (whole layers may be filtered out):
        # the solver-like stream with shared stores
        sst = Stream(chk, tier, types=(2, 1), widths=(1, 2, 3), flavours=(0, 1, 2), ninst=(40 if tier == "quick" else 600), stores=True)
        results = results + sst.run()
    agree, dis = correspondence(chk, results, GATE[pid])
    total = sum(len(rows) for _, rows in results)
    stats = {}; nontriv = set(); samples = []
    fails = []
    if pid == "C12" and not viz: fails += depth_fails
    if pid in ("C06", "C07", "C08"):
        fl, stats, nontriv = eval_diagram_properties(results, {pid})
        fails = [f for f in fl if f[0] in (pid, "ALL")]
    elif pid in ("C12", "C13"):
        stats = {"compilations": 0, "events": 0, "relax_events": 0, "layers": 0, "layers_at_width": 0}
        for I, rows in results:
            for meta, li, lm, case in rows:
                fi = parse_fields(li)
                if fi.get("status") != "ok":
                    fails.append((pid, "total", "compilation did not complete: " + li[:80], {"instance": I.line(), "case": case})); continue
                pf, per_layer = protocol_failures(I, meta, fi)
                stats["compilations"] += 1; stats["events"] += fi.get("LOG", "").count(" ; ") + 1
                stats["relax_events"] += fi.get("LOG", "").count("RELAX"); stats["layers"] += len(per_layer)
                stats["layers_at_width"] += sum(1 for n in per_layer if n == meta["w"])
                if "RELAX" in fi.get("LOG", "") or (pid == "C13" and any(n == meta["w"] for n in per_layer)): nontriv.add(case + I.line()[:40])
                for (p, msg) in pf:
                    if p == "C13" and I.notimp: continue      # C13 is stated for models in which every state is impacted by every variable
                    if p == pid:
                        fails.append((pid, "protocol", msg, {"instance": I.line(), "case": case, "flavour": FLV[meta["flv"]], "type": CT[meta["ct"]],
                                                             "width": meta["w"], "log": fi.get("LOG", "")[:1500]}))
    elif pid == "C20":
        stats = {"diagrams": 0, "renderings": 0, "with_hidden_nodes": 0, "empty_last_layer": 0, "infeasible": 0}
        for I, rows in results:
            ref = None
            for meta, li, lm, case in rows:
                if "viz" not in meta:
                    fi = parse_fields(li)
                    ref = None
                    if fi.get("status") == "ok":
                        stats["diagrams"] += 1
                        ref = dot_wellformed(fi["DOT"]); refcase = case; ref_has_value = fi.get("bv") != "none"; refmeta = meta
                        if fi.get("bv") == "none": stats["infeasible"] += 1
                    continue
                stats["renderings"] += 1
                ctx = {"instance": I.line(), "compile": refcase if ref else None, "flags": meta["viz"], "impl": li[:500]}
                if not li.startswith("V digraph"):
                    fails.append((pid, "total", "as_graphviz did not return a digraph: %s" % li[:60], ctx)); continue
                probs, decl, edges, term, tedges = dot_wellformed(li[2:])
                for p in probs: fails.append((pid, "wellformed", p, ctx))
                if ref:
                    rprobs, rdecl, redges, rterm, rtedges = ref
                    show_deleted = bool(meta["viz"] & 16)
                    if show_deleted and sorted(decl) != sorted(rdecl):
                        fails.append((pid, "faithful", "with show_deleted every node must be declared exactly once", ctx))
                    if not set(decl) <= set(rdecl): fails.append((pid, "faithful", "a declared node does not exist in the diagram", ctx))
                    if len(decl) < len(rdecl): stats["with_hidden_nodes"] += 1; nontriv.add(li)
                    redge_set = set((a, b, x, v, c) for (a, b, w, x, v, c) in redges)
                    for (a, b, w, x, v, c) in edges:
                        if b not in decl: fails.append((pid, "faithful", "edge %d -> %d targets an undeclared node" % (a, b), ctx)); break
                        if a not in rdecl: fails.append((pid, "faithful", "edge %d -> %d starts at a node that does not exist" % (a, b), ctx)); break
                        if (a, b, x, v, c) not in redge_set:
                            fails.append((pid, "faithful", "edge %d -> %d (x%d = %d, cost %d) is not an arc of the diagram" % (a, b, x, v, c), ctx)); break
                    if term != rterm: fails.append((pid, "faithful", "terminal node drawn inconsistently across configurations", ctx))
                    # the terminal layer is non-empty iff the diagram has a best value (best_node = max over the terminal layer)
                    if term != ref_has_value:
                        fails.append((pid, "terminal", "terminal node %s although the terminal layer is %s (best_value = %s)"
                                      % ("drawn" if term else "not drawn", "non-empty" if ref_has_value else "empty", "some" if ref_has_value else "none"), ctx))
                    if not rterm: stats["empty_last_layer"] += 1
    if pid == "C13":
        import check_simple
        check_simple.c13_combinators(chk, tier)
        # the width bound must not depend on the ranking being TOTAL: the same compilations with a coarse ranking (all states tied), on the
        # implementation only (which of the tied nodes survives is up to the library's unstable sort, so there is no model to compare with)
        cblocks = []; cmeta = []
        for (I, metas), blk in list(zip(st.meta, st.blocks))[: (60 if tier == "quick" else 600)]:
            if I.notimp: continue
            cblocks.append([blk[0], "RK 1"] + [l for l in blk[1:] if l.startswith("M ")] + ["RK 0"])
            cmeta.append((I, [mm for mm in metas[1:] if "viz" not in mm]))
        shards, couts = run_sharded("impl", "mdd", cblocks, tag=pid + "coarse")
        cres = [None] * len(cblocks)
        for k in range(len(shards)):
            p_ = 0
            for (idx, blk) in shards[k]:
                n_ = sum(1 for l in blk if l.startswith("M "))
                cres[idx] = couts[k][p_:p_ + n_]; p_ += n_
        ncoarse = 0
        for (I, metas), outs in zip(cmeta, cres):
            for meta, li in zip(metas, outs):
                fi = parse_fields(li)
                if fi.get("status") != "ok": continue
                ncoarse += 1
                pf, per_layer = protocol_failures(I, meta, fi)
                for (p2, msg) in pf:
                    if p2 == "C13":
                        fails.append((pid, "width (coarse ranking: every pair of states ties)", msg, {"instance": I.line(), "flavour": FLV[meta["flv"]], "type": CT[meta["ct"]],
                                                                                       "width": meta["w"], "ranking": "coarse", "log": fi.get("LOG", "")[:1500]}))
        chk.cov["coarse_ranking_compilations"] = ncoarse
    if dis and not fails and pid in ("C06", "C07", "C08"):
        # the correspondence broke but every clause held so far: widen the search for a concrete failing input (six times as many
        # instances from another seed; the clauses are evaluated on the implementation's answers only)
        class _W: pass
        w = _W(); w.seed = chk.seed + 77; w.pid = pid + "w"
        wst = Stream(w, tier, types=types, widths=widths, ninst=(900 if tier == "quick" else 6000), longarcs=True)
        wres = wst.run()
        fl2, _, _ = eval_diagram_properties(wres, {pid})
        fails = [f for f in fl2 if f[0] in (pid, "ALL")]
        chk.cov["widened_search"] = {"compilations": sum(len(r) for _, r in wres), "failing_inputs_found": len(fails)}
    for f in fails:
        chk.violation("property", "%s [%s]: %s" % (f[0], f[1], f[2]), f[3], cls=(f[4] if len(f) > 4 else None))
    for (I, meta, li, lm, case, why) in dis[:50]:
        if not fails:
            chk.violation("unproved", "correspondence MddModel vs %s differs on observable `%s` (the property's clauses hold on this and on all %d other cases explored)"
                          % (FLV.get(meta.get("flv"), "diagram"), why, total),
                          {"instance": I.line(), "case": case, "differs_on": why, "impl": li[:1500], "model": lm[:1500],
                           "theorem": "theorems of Props/%s.v are about MddModel.compile, which no longer matches the code" % pid})
    for I, rows in results[:3]:
        for meta, li, lm, case in rows[:1]:
            samples.append({"instance": I.line(), "case": case, "impl": li[:400]})
    chk.cov.update({"evaluations": total, "distinct_nontrivial": len(nontriv),
                    "rule": "seeded random layered table models (negative costs, ties, dead ends, exact/slack rough bounds, long arcs for the pooled flavour) x reachable "
                            "exact sub-problem roots x {LEL, frontier, pooled} x widths x incumbents {none, below, at, above optimum}, all compiled on ONE diagram object "
                            "per flavour (histories); non-trivial = distinct case in which the mechanism under test fired (layer merged / truncated / node hidden / relax called)",
                    "samples": samples, "input_distribution": stats, "agreements_model_vs_impl": agree, "traces_validated_against_impl": agree,
                    "disagreements_model_vs_impl": len(dis)})
    chk.cov["explanation"] = ("Executable Coq model of the three diagram implementations (Mdd.v) compared field by field (API results, drained cut-set, full DOT dump, "
                              "callback log) with the code on every case; the property clauses are evaluated on the implementation's answers with the extracted "
                              "Coq specification (exhaustive enumeration) as oracle. Theorems (pinned): %s. Outside the theorems: %s."
                              % (", ".join(PINNED[pid]) or "none registered yet", "; ".join(OPEN[pid]) or "none"))
    chk.cov["open_obligations"] = OPEN[pid]
    return chk.finish()
