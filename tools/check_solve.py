"""Solver-level checks: C01 C02 C05 C09 C14 C15 C19 (sequential model + implementation + specification oracle),
plus un-scheduled real-thread parallel runs."""
import concurrent.futures
from common import *
from gen import *
from check_mdd import Oracle, oracle_batch, full_replay_ok, dec_list, parse_fields, parse_cutset, FLV


def kv(l):
    d = {}
    for x in l[2:].split():
        if "=" in x:
            k, _, v = x.partition("=")
            if k not in d: d[k] = v
    if l.startswith("S HANG"): d["HANG"] = "1"
    if l.startswith("S CRASH"): d["CRASH"] = "1"
    return d


def sline(par, threads, ctor, flv, cache, fringe, width, cutk, dom, primal=None):
    """primal: None, one (value, solution) pair, or a list of pairs applied in order by successive set_primal calls"""
    s = "S %d %d %d %d %d %d %d %d %d" % (par, threads, ctor, flv, cache, fringe, width, cutk, dom)
    if primal is None: return s + " 0"
    if isinstance(primal, tuple): primal = [primal]
    s += " %d" % len(primal)
    for pv, sol in primal:
        s += " %d %d %s" % (pv, len(sol), " ".join("%d %d" % (x, v) for x, v in sol))
    return s


def run_blocks(side, blocks, tag):
    """blocks: [inst_line, case...] ; returns list (per block) of list of output lines"""
    shards, outs = run_sharded(side, "solve", blocks, tag=tag)
    res = [None] * len(blocks)
    for k in range(len(shards)):
        p = 0
        for (idx, blk) in shards[k]:
            n = len(blk) - 1
            res[idx] = outs[k][p:p + n]; p += n
    return res


def run_par_cases(cases, timeout=30):
    """each case = (inst_line, sline): own process with a watchdog; a timeout is a HANG"""
    def work(i):
        path = workfile("par_%d.txt" % i)
        open(path, "w").write(cases[i][0] + "\n" + cases[i][1] + "\n")
        try:
            p = subprocess.run([HARNESS_BIN, "solve", path], stdout=subprocess.PIPE, stderr=subprocess.PIPE, text=True, timeout=timeout)
            out = p.stdout.strip().split("\n")
            return out[-1] if out and out[-1].startswith("S ") else "S CRASH"
        except subprocess.TimeoutExpired:
            return "S HANG (watchdog %ds)" % timeout
    with concurrent.futures.ThreadPoolExecutor(max_workers=4) as ex:
        return list(ex.map(work, range(len(cases))))


CONFIGS_ALL = [(flv, cache, fr, w, dom) for flv in (0, 1, 2) for cache in (0, 1) for fr in (0, 1) for w in (1, 2, 3) for dom in (0, 1)]


def gen_instances(rng, n, kind="plain"):
    out = []
    for i in range(n):
        r = rng.fork()
        if kind == "plain":
            m = i % 5
            if m == 4: I = gen_relaxed_improves(r)     # the relaxed diagram of the root improves the incumbent while being inexact
            elif m == 0: I = gen_layered(r, nvars=r.range(3, 6), per_layer=r.range(2, 5), dom_max=r.range(1, 3))
            elif m == 1 and i % 8 == 1: I = gen_layered(r, nvars=r.range(4, 6), per_layer=2, dom_max=3)            # heavy re-convergence
            elif m == 1: I = gen_chain(r, nvars=r.range(4, 7), per_layer=r.range(3, 5), dom_max=r.range(1, 3))  # chain relaxation (merge result = real state, recycling)
            elif m == 2: I = gen_layered(r, nvars=r.range(2, 4), per_layer=r.range(1, 3), dom_max=2, cost_lo=-6, cost_hi=0)  # negative optimum
            else: I = gen_layered(r, nvars=r.range(4, 7), per_layer=r.range(3, 5), dom_max=2, depth_free=True, dominance=0)  # state does not embed depth
        elif kind == "reconv" and i % 3 == 2:
            I = gen_topmerge(r)          # one dedicated merged state per layer: the same merged state re-appears in every diagram (cache hits inside compilations)
        elif kind == "reconv" and i % 3 == 1:
            # long searches with heavy re-convergence: the same (state, depth) is reached from several open sub-problems with different values
            I = gen_layered(r, nvars=r.range(6, 8), per_layer=r.range(3, 4), dom_max=3, dominance=0, rub=r.choice([0, 0, 3]), slack=r.choice([0, 1, 3, 6]), dead=False)
        elif kind == "reconv":
            I = gen_layered(r, nvars=r.range(4, 7), per_layer=r.range(1, 3), dom_max=r.range(2, 3), dominance=r.choice([0, 0, 1]),
                            rub=r.choice([0, 1, 2, 3, 3]))
        elif kind == "longarc":
            I = gen_layered(r, nvars=r.range(3, 6), per_layer=r.range(2, 4), dom_max=2, depth_free=True, irrelevance=True, dominance=0)
        out.append(I)
    return out


def solution_ok(I, f, expect):
    """validates a reported solution: at most one decision per variable, every decision in the domain of its variable in the
    state reached, replay value = expect; complete assignment. Returns None or a message."""
    sol = f.get("sol")
    if sol in (None, "none"): return "no solution reported"
    decs = dec_list(sol)
    ok, why = full_replay_ok(I, decs, expect)
    if not ok: return why
    if not I.notimp and len(decs) != I.nvars: return "solution assigns %d of %d variables" % (len(decs), I.nvars)
    return None


def consistency_failures(I, f, uninterrupted, primal_given=False):
    """C02 clauses on one result line"""
    out = []
    if "CRASH" in f or "HANG" in f: return out
    bv = f.get("bv"); lb = f.get("lb"); ub = f.get("ub"); cv = f.get("cv")
    if (bv == "none") != (f.get("sol") == "none"): out.append("a solution is present iff a value is present fails (bv=%s sol=%s)" % (bv, f.get("sol")))
    if bv != cv: out.append("best_value %s differs from the value in the Completion %s" % (bv, cv))
    if bv != "none":
        if bv != lb: out.append("best_value %s differs from best_lower_bound %s" % (bv, lb))
        if not primal_given:
            m = solution_ok(I, f, int(bv))
            if m: out.append("reported solution is not a feasible solution of value %s: %s" % (bv, m))
        if uninterrupted and ub != bv: out.append("after an uninterrupted run best_upper_bound %s differs from the value %s" % (ub, bv))
    else:
        if lb != str(IMIN): out.append("no value but best_lower_bound = %s" % lb)
    return out


def describe(I, case, li, lm=None, **kw):
    d = {"instance": I.line(), "case": case, "impl": li}
    if lm is not None: d["model"] = lm
    d.update(kw)
    return d


def classify_hang(I, case):
    """D1: is some sub-problem reachable from the root a member of its own cut-set (pooled, long arcs) ACCORDING TO THE MODEL of the
    current code? The known finding is keyed on the model (a faithful transliteration of the unchanged pooled.rs) exhibiting it on this very
    instance: a change to the code that makes further sub-problems re-enter their own cut-set is NOT covered by the known finding."""
    if not I.notimp: return False
    t = case.split()
    flv, width = int(t[4]), int(t[7])
    if flv != 2: return False
    seen = set(); todo = [(0, I.init, I.initval, [])]; steps = 0
    while todo and steps < 60:
        steps += 1
        k, b, v, path = todo.pop(0)
        if (k, b, v) in seen: continue
        seen.add((k, b, v))
        p = " ".join("%d %d" % (x, val) for x, val in path)
        ml = "M 2 1 %d %d 0 0 0 %d %d 1 %d %d %s" % (width, IMIN, k, v, b, len(path), p)
        path_f = workfile("classify.txt")
        open(path_f, "w").write(I.line() + "\n" + ml + "\n")
        out = run_model("mdd", path_f)
        from check_mdd import split_alts
        f = parse_fields(split_alts(out[0])[0]) if out else {}
        for c in parse_cutset(f.get("CS")):
            if c["depth"] <= k: return True
            if len(c["state"]) == 1: todo.append((c["depth"], c["state"][0], c["value"], c["path"]))
    return False


class SolveCheck:
    def __init__(self, pid, tier, level="other"):
        self.chk = Check(pid, tier, level)
        self.tier = tier; self.pid = pid
        self.rng = Rng(self.chk.seed)
        self.stats = {"runs": 0, "explored>1": 0, "infeasible": 0, "negative_or_zero_opt": 0, "ties_skipped_for_trajectory": 0,
                      "by_flavour": {"LEL": 0, "FC": 0, "Pooled": 0}, "cache_on": 0, "nodup": 0, "dominance_on": 0}
        self.agree = 0; self.total = 0; self.dis = []
        self.nontrivial = set(); self.samples = []

    def proofs(self, prop_file, pinned):
        pr = check_proofs(prop_file, pinned)
        proof_coverage(self.chk, pr, "make theories/Props/%s.vo && coqc theories/Props/%s.v (Print Assumptions scanned)" % (prop_file, prop_file))

    def build(self):
        for b, what in ((build_harness(), "harness"), (build_model(), "model driver")):
            if not b[0]:
                self.chk.violation("unproved", what + " does not build: " + b[1], {"build": b[1]}); return False
        return True

    def note_run(self, case, f):
        t = case.split()
        self.stats["runs"] += 1
        self.stats["by_flavour"][FLV[int(t[4])]] += 1
        self.stats["cache_on"] += int(t[5]); self.stats["nodup"] += int(t[6]); self.stats["dominance_on"] += int(t[9])
        if int(f.get("explored", "0") or 0) > 1: self.stats["explored>1"] += 1

    def compare_model(self, I, case, li, lm, keys_strict=("x", "bv", "lb", "ub"), keys_traj=("explored", "polls")):
        """(B) correspondence on the gated observables; trajectory observables are extra agreement unless a tie occurred"""
        fi = kv(li); fm = kv(lm)
        self.total += 1
        if "CRASH" in fi or "HANG" in fi or "CRASH" in fm or "HANG" in fm:
            if ("CRASH" in fi) == ("CRASH" in fm) and ("HANG" in fi) == ("HANG" in fm): self.agree += 1
            else: self.dis.append((I, case, li, lm, "crash/hang"))
            return
        keys = list(keys_strict)
        if fm.get("tie") == "1": self.stats["ties_skipped_for_trajectory"] += 1
        else: keys += list(keys_traj)
        bad = [k for k in keys if fi.get(k) != fm.get(k)]
        if bad: self.dis.append((I, case, li, lm, ",".join(bad)))
        else: self.agree += 1

    def finish(self, rule, explanation, open_obl, extra=None):
        chk = self.chk
        if self.pid in ("C05", "C02"):
            import check_par
            check_par.check_par(self.tier, "C05" if self.pid == "C05" else "C03", chk=chk)
        for (I, case, li, lm, why) in self.dis[:40]:
            if not any(v[0] == "property" for v in chk.violations):
                chk.violation("unproved", "correspondence SeqSolver model vs SequentialSolver differs on %s (the property's clauses hold on every case explored): %s"
                              % (why, case), describe(I, case, li, lm, differs_on=why,
                              theorem="theorems about Solver.maximize / Mdd.compile no longer describe the code"))
        chk.cov.update({"evaluations": self.stats["runs"], "distinct_nontrivial": len(self.nontrivial), "rule": rule,
                        "samples": self.samples[:5], "input_distribution": self.stats,
                        "agreements_model_vs_impl": self.agree, "traces_validated_against_impl": self.agree,
                        "disagreements_model_vs_impl": len(self.dis), "explanation": explanation, "open_obligations": open_obl})
        if extra: chk.cov.update(extra)
        return chk.finish()


RULE = ("seeded random table models (layered re-converging, negative costs, ties, dead ends, infeasible, depth-free states, exact/slack rough bounds, "
        "admissible dominance rules) x {LEL, frontier, pooled} x {no cache, cache} x {SimpleFringe, NoDupFringe} x widths 1..3 x {dominance off, on}; "
        "non-trivial = distinct run exploring more than one sub-problem")


# ================================================================================ C01 / C02 / C09 / C10-solver / C11-solver
def check_c01(tier, pid="C01"):
    sc = SolveCheck(pid, tier, "proof")
    if pid == "C01": sc.proofs("C01+C01u", ["C01_seq_solver_correct_under_diagram_contracts", "C01_sequential_solver_returns_optimum",
                                            "C01_sequential_solver_returns_optimum_unbounded_relax", "C01_holds_on_table_family", "C01_example_instance",
                                            "C01_sequential_solver_returns_optimum_NoDupFringe", "C01_NoDupFringe_under_diagram_contracts",
                                            "C01_holds_on_table_family_NoDupFringe", "C01_example_instance_with_coalescing"])
    if pid == "C09": sc.proofs("C09u+C09su", ["C09_every_threshold_of_a_compilation_is_sound", "C09_every_cache_entry_written_is_sound",
                                        "C09_every_cache_entry_written_is_sound_within_the_guard", "C09_thresholds_sound_machine_integers",
                                        "C09_holds_on_table_family", "C09_example_threshold_above_the_node_value",
                                        "C09_sequential_solver_with_cache_returns_optimum", "C09_cache_does_not_change_the_answer",
                                        "C09_solver_theorem_from_the_cache_contracts", "C09_cache_contract_holds_for_the_diagram_model",
                                        "C09_search_holds_on_table_family", "C09_example_cache_prunes"])
    if pid == "C02": sc.proofs("C02+C02u", ["C02_best_exact_path_replays", "C02_chain_feasible_in_exact_arithmetic",
                                            "C02_sequential_solution_replays_to_reported_value"])
    if not sc.build(): return sc.chk.finish()
    n = {"C01": 60, "C02": 40, "C09": 60}.get(pid, 40) * (1 if tier == "quick" else 40)
    kind = "reconv" if pid == "C09" else "plain"
    insts = gen_instances(sc.rng, n, kind)
    if pid in ("C01", "C02"):
        # the directed family exposes a defect of maybe_update_best on about one instance in six: enough of them for a reliable verdict
        insts += [gen_relaxed_improves(sc.rng.fork()) for _ in range(40 if tier == "quick" else 400)]
    blocks = []
    for I in insts:
        cfgs = CONFIGS_ALL
        if pid == "C09": cfgs = [c for c in CONFIGS_ALL if True]
        lines = [I.line()]
        for (flv, cache, fr, w, dom) in cfgs:
            if dom and I.domkind == 0: continue
            lines.append(sline(0, 1, 1, flv, cache, fr, w, 0, dom))
        blocks.append(lines)
    impl = run_blocks("impl", blocks, pid)
    model = run_blocks("model", blocks, pid)
    opts = oracle_batch([(I.line(), ["O opt"]) for I in insts])
    for I, blk, il, ml, op in zip(insts, blocks, impl, model, opts):
        opt = op[0]
        if opt == "none": sc.stats["infeasible"] += 1
        elif int(opt) <= 0: sc.stats["negative_or_zero_opt"] += 1
        by_cfg = {}
        for case, li, lm in zip(blk[1:], il, ml):
            f = kv(li); sc.note_run(case, f)
            if len(sc.samples) < 5 and sc.stats["runs"] % 997 == 1: sc.samples.append(describe(I, case, li, optimum=opt))
            if int(f.get("explored", "0") or 0) > 1: sc.nontrivial.add(I.line()[:60] + case)
            ctx = describe(I, case, li, lm, optimum=opt)
            # (A) the property
            if "CRASH" in f: sc.chk.violation("property", "sequential maximize() panics: %s" % case, ctx)
            elif "HANG" in f: sc.chk.violation("property", "sequential maximize() does not terminate: %s" % case, ctx)
            else:
                if f.get("x") != "1": sc.chk.violation("property", "uninterrupted run reports is_exact = false: %s" % case, ctx)
                if f.get("bv") != opt:
                    sc.chk.violation("property", "reported value %s differs from the optimum %s by exhaustive enumeration (%s)" % (f.get("bv"), opt, case), ctx)
                if pid in ("C01", "C02"):
                    for m in consistency_failures(I, f, True):
                        sc.chk.violation("property", "C02: %s (%s)" % (m, case), ctx)
                t = case.split()
                by_cfg[(t[4], t[6], t[7], t[9], t[5])] = f.get("bv")
            sc.compare_model(I, case, li, lm)
        if pid == "C09":
            for (flv, fr, w, dom, cache), v in by_cfg.items():
                if cache == "1" and by_cfg.get((flv, fr, w, dom, "0")) != v:
                    sc.chk.violation("property", "the caching solver returns %s, the non-caching solver %s (flavour %s fringe %s width %s dominance %s)"
                                     % (v, by_cfg.get((flv, fr, w, dom, "0")), flv, fr, w, dom), describe(I, "cache on vs off", str(by_cfg)))
    extra = None
    if pid in ("C01", "C02"):
        # the solver theorems are about Solver.maximize ON TOP OF Mdd.compile: tie the diagram model to the code here as well
        import check_mdd
        st = check_mdd.Stream(sc.chk, tier, types=(2, 1), widths=(1, 2, 3), ninst=(60 if tier == "quick" else 600))
        res = st.run()
        ag, ds = check_mdd.correspondence(sc.chk, res, ["status", "cx", "cv", "x", "bv", "bs", "ev", "es", "CS", "DOT"])
        extra = {"diagram_level_stream": {"compilations": sum(len(r) for _, r in res), "agreements": ag, "disagreements": len(ds)}}
        for (I, meta, li, lm, case, why) in ds[:10]:
            sc.dis.append((I, case, li[:1200], lm[:1200], "diagram-level " + str(why)))
    if pid in ("C01", "C02"):
        import check_simple
        nseq, fbad = check_simple.nodup_tie(tier, pid + "f")
        sc.stats["fringe_level_sequences"] = nseq
        for (l, a, b, v) in fbad[:5]:
            if v != "OK":
                sc.chk.violation("property", "NoDupFringe is not a faithful priority queue (%s): sub-problems handed to the solver are lost / altered (value and path of an "
                                 "entry no longer belong together) (ops %s, answers %s)" % (v, l, a), {"ops": l, "impl": a, "model": b, "spec_verdict": v})
            else:
                sc.dis.append((insts[0], l, a, b, "fringe-level"))
    # the PARALLEL solver with a single worker is deterministic (one interleaving): same instances, every configuration, vs the oracle;
    # for C09 / C03-like defects of the cache handling: plus many depth-free instances (a state re-appears at the same depth with a BETTER value
    # after its first copy has been explored - the situation in which a wrong `explored` threshold loses the optimum)
    pinsts = list(insts); popts = None
    if pid == "C09":
        for _ in range(300 if tier == "quick" else 3000):
            r = sc.rng.fork()
            pinsts.append(gen_layered(r, nvars=r.range(5, 8), per_layer=r.range(3, 5), dom_max=2, depth_free=True, dominance=0, rub=r.choice([0, 3]),
                                      slack=r.choice([0, 2, 5]), dead=False))
        for _ in range(300 if tier == "quick" else 3000):
            pinsts.append(gen_topmerge(sc.rng.fork()))
        opts = opts + oracle_batch([(I.line(), ["O opt"]) for I in pinsts[len(insts):]])
    pblocks = []
    for j, I in enumerate(pinsts):
        lines = [I.line()]
        for (flv, cache, fr, w, dom) in CONFIGS_ALL:
            if dom and I.domkind == 0: continue
            if pid == "C09" and not cache: continue
            lines.append(sline(1, 1, 1, flv, cache, fr, w, 0, dom))
            if j >= len(insts): lines.append(sline(0, 1, 1, flv, cache, fr, w, 0, dom))      # and the sequential caching solver on the extra instances
        pblocks.append(lines)
    pimpl = run_blocks("impl", pblocks, pid + "p1")
    sc.stats["parallel_single_worker_runs"] = sum(len(b) - 1 for b in pblocks)
    for I, blk, il, op in zip(pinsts, pblocks, pimpl, opts):
        opt = op[0]
        for case, li in zip(blk[1:], il):
            f = kv(li); ctx = describe(I, case, li, optimum=opt)
            if "CRASH" in f or "HANG" in f:
                if not (I.notimp and classify_hang(I, case)):
                    sc.chk.violation("property", "parallel maximize() with one worker panics / does not terminate: %s" % case, ctx)
            elif f.get("x") != "1" or f.get("bv") != opt:
                sc.chk.violation("property", "%s returns %s (exact=%s), optimum by exhaustive enumeration %s (%s)"
                                 % ("parallel solver (one worker)" if case.split()[1] == "1" else "sequential solver", f.get("bv"), f.get("x"), opt, case), ctx)
            elif pid in ("C01", "C02"):
                for m in consistency_failures(I, f, True):
                    sc.chk.violation("property", "C02 (parallel, one worker): %s (%s)" % (m, case), ctx)
    if pid == "C09":
        # diagram-level stream with the threshold cache (and dominance store) shared across compilations, as the solvers do:
        # thresholds, cache calls and pruning flags of every compilation must equal the model's
        import check_mdd
        st = check_mdd.Stream(sc.chk, tier, types=(2, 1), widths=(1, 2, 3), flavours=(0, 1, 2), ninst=(60 if tier == "quick" else 600), stores=True)
        res = st.run()
        ag, ds = check_mdd.correspondence(sc.chk, res, ["status", "cx", "cv", "x", "bv", "ev", "CS", "DOT", "LOG"])
        ncu = sum(li.count("CU ") for _, rows in res for _, li, _, _ in rows)
        npr = sum(li.count("lightgray") for _, rows in res for _, li, _, _ in rows)
        extra = {"diagram_level_cache_stream": {"compilations": sum(len(r) for _, r in res), "agreements": ag, "disagreements": len(ds),
                                                 "cache_updates_compared": ncu,
                                                 "skipped_after_a_store_changing_tie": st.tainted}}
        for (I, meta, li, lm, case, why) in ds[:10]:
            sc.dis.append((I, case, li[:1200], lm[:1200], "diagram-level " + str(why)))
    if sc.dis and not any(v[0] == "property" for v in sc.chk.violations):
        # the correspondence broke but every property clause held so far: widen the search for a concrete failing input
        # (10x more instances of the family in which this kind of defect shows: loose, state-dependent rough bounds)
        wr = Rng(sc.chk.seed + 77)
        winsts = []
        for i in range(2500 if tier == "quick" else 12000):
            r = wr.fork()
            winsts.append(gen_layered(r, nvars=r.range(4, 7), per_layer=r.range(2, 4), dom_max=r.range(2, 3), dominance=r.choice([0, 0, 1]),
                                      rub=r.choice([3, 3, 2, 0]), dead=r.chance(1, 4)))
        wblocks = []
        for I in winsts:
            lines = [I.line()]
            for (flv, cache, fr, w, dom) in CONFIGS_ALL:
                if dom and I.domkind == 0: continue
                if pid == "C09" and not cache: continue
                if w == 3 and flv == 2: continue
                lines.append(sline(0, 1, 1, flv, cache, fr, w, 0, dom))
            wblocks.append(lines)
        wimpl = run_blocks("impl", wblocks, pid + "w")
        wopts = oracle_batch([(I.line(), ["O opt"]) for I in winsts])
        nw = 0
        for I, blk, il, op in zip(winsts, wblocks, wimpl, wopts):
            for case, li in zip(blk[1:], il):
                nw += 1
                f = kv(li)
                if "CRASH" in f or "HANG" in f or f.get("x") != "1" or f.get("bv") != op[0]:
                    sc.chk.violation("property", "widened search: solver returns %s (exact=%s), optimum by exhaustive enumeration is %s (%s)"
                                     % (f.get("bv"), f.get("x"), op[0], case), describe(I, case, li, optimum=op[0]))
        sc.stats["widened_search_runs"] = nw
    expl = {
        "C01": "Executable Coq model of SequentialSolver (Solver.v, on top of the diagram model) compared run by run with the code (is_exact, value, bounds; explored and "
               "poll counts when no tie occurred) and, independently, the implementation's value compared with exhaustive enumeration extracted from the Coq "
               "specification (opt_enum). Theorems (Props/C01.v, Props/C01u.v): correctness of the solver loop under the diagram contracts (SolverProofs.v) and the unconditional "
               "form with the contracts proved about Mdd.compile (Assembly.v) for the clean flavours without cache / dominance rule and SimpleFringe.",
        "C02": "Every reported solution is replayed through the model's transition / cost functions; value = lower bound = Completion value; after an "
               "uninterrupted run upper bound = value. Theorems: the best path of an exact node replays to its value (MddExact.v); the solution returned by the sequential solver replays in exact "
               "arithmetic to the reported value (Assembly.C01_solution_replays).",
        "C09": "Caching vs non-caching solvers vs exhaustive enumeration on re-converging instances; the Coq solver model includes the threshold cache, so equality of "
               "explored-node and poll counts with the code validates the threshold computations. Search-level soundness theorem is an open obligation.",
    }[pid]
    openo = {"C01": ["C01 theorem for cache / dominance / pooled configurations (covered by correspondence + oracle only)"],
             "C02": ["C02 theorem for cache / dominance / pooled / NoDupFringe configurations and for parallel runs cut off by a cutoff"],
             "C09": ["the PARALLEL solver with the cache (the proof needs best-first pops by one thread: correspondence + oracle only)",
                     "pooled diagrams, NoDupFringe, a dominance rule together with the cache: correspondence + oracle only"]}[pid]
    return sc.finish(RULE, expl, openo, extra)


def par_one_worker_cache_batch(chk, rng, n):
    """parallel solver with ONE worker (deterministic) and the cache, on depth-free instances where a state re-appears at the same depth with a
    better value after its first copy was explored; vs exhaustive enumeration. Returns the number of runs."""
    insts = []
    for _ in range(n):
        r = rng.fork()
        insts.append(gen_layered(r, nvars=r.range(5, 8), per_layer=r.range(3, 5), dom_max=2, depth_free=True, dominance=0, rub=r.choice([0, 3]),
                                 slack=r.choice([0, 2, 5]), dead=False))
    # plus instances whose INEXACT relaxed diagram of the root holds an exact terminal node that improves the incumbent and that the restricted
    # diagram missed (every flavour, with and without the cache): the parallel solver must record it although the relaxed diagram is not exact
    nd = len(insts)
    insts += [gen_relaxed_improves(rng.fork()) for _ in range(max(20, n // 4))]
    opts = oracle_batch([(I.line(), ["O opt"]) for I in insts])
    blocks = []
    for k, I in enumerate(insts):
        lines = [I.line()]
        for flv in (0, 1, 2):
            for cache in ((1,) if k < nd else (0, 1)):
                for fr in (0, 1):
                    for w in (1, 2, 3):
                        lines.append(sline(1, 1, 1, flv, cache, fr, w, 0, 0))
        blocks.append(lines)
    out = run_blocks("impl", blocks, chk.pid + "p1c")
    runs = 0
    for I, blk, il, op in zip(insts, blocks, out, opts):
        for case, li in zip(blk[1:], il):
            f = kv(li); runs += 1
            if "CRASH" in f or "HANG" in f:
                chk.violation("property", "parallel maximize() with one worker and the cache panics / does not terminate: %s" % case, describe(I, case, li, optimum=op[0]))
            elif f.get("x") != "1" or f.get("bv") != op[0]:
                chk.violation("property", "parallel solver (one worker, cache) returns %s (exact=%s), optimum by exhaustive enumeration %s (%s)"
                              % (f.get("bv"), f.get("x"), op[0], case), describe(I, case, li, optimum=op[0]))
    return runs


# ================================================================================ C05 / C19 (cutoff at every poll)
def check_cutoff(tier, pid):
    sc = SolveCheck(pid, tier, "proof")
    if pid == "C05": sc.proofs("C05+C05u", ["C05_seq_anytime_sound", "C05_seq_lb_le_ub", "C05_sequential_anytime_bounds_sound", "C05_holds_on_table_family",
                                            "C05_sequential_anytime_bounds_sound_NoDupFringe", "C05_holds_on_table_family_NoDupFringe",
                                            "C05_parallel_anytime_bounds_sound", "C05_parallel_bounds_sound_in_every_reachable_state",
                                            "C05_parallel_holds_on_table_family", "C05_parallel_example_three_aborts",
                                            "C05_parallel_regression_max_sentinel", "C05_parallel_anytime_bounds_sound_NoDupFringe"])
    if pid == "C19": sc.proofs("C19+C19u", ["C19_cutoff_monotone", "C19_cutoff_monotone_any_later_point", "C19_eventually_the_uninterrupted_run",
                                       "C19_compile_prefix_determinism", "C19_bounds_monotone_in_cutoff", "C19_bounds_monotone_any_later_cutoff",
                                       "C19_large_cutoff_is_uninterrupted_run", "C19_bounds_monotone_in_cutoff_NoDupFringe",
                                       "C19_bounds_monotone_any_later_cutoff_NoDupFringe", "C19_large_cutoff_is_uninterrupted_run_NoDupFringe",
                                       "C19_holds_on_table_family_NoDupFringe", "C19_example_with_coalescing"])
    if not sc.build(): return sc.chk.finish()
    n = 25 * (1 if tier == "quick" else 30)
    insts = gen_instances(sc.rng, n, "plain")
    # deep searches: many sub-problems open when the cutoff fires (the node in process is NOT the only carrier of the optimum's bound)
    ndeep = 10 if tier == "quick" else 120
    for _ in range(ndeep):
        r = sc.rng.fork()
        insts.append(gen_layered(r, nvars=r.range(5, 7), per_layer=r.range(3, 5), dom_max=r.range(2, 3), dominance=0, rub=r.choice([0, 0, 3]), dead=False))
    cfgs = [(0, 0, 0, 1, 0), (1, 0, 1, 2, 0), (0, 1, 0, 1, 0), (1, 1, 1, 1, 0), (2, 0, 0, 2, 0), (0, 0, 1, 1, 1)]
    deep_cfgs = [(0, 0, 0, 1, 0), (1, 0, 1, 1, 0), (0, 0, 1, 2, 0)]
    base_blocks = []
    for j, I in enumerate(insts):
        lines = [I.line()]
        for (flv, cache, fr, w, dom) in (cfgs if j < n else deep_cfgs):
            if dom and I.domkind == 0: continue
            lines.append(sline(0, 1, 1, flv, cache, fr, w, 0, dom))
        base_blocks.append(lines)
    base = run_blocks("impl", base_blocks, pid + "b")
    opts = oracle_batch([(I.line(), ["O opt"]) for I in insts])
    blocks = []; metas = []
    KMAX = 40 if tier == "quick" else 200
    for I, blk, il in zip(insts, base_blocks, base):
        lines = [I.line()]; meta = []
        for case, li in zip(blk[1:], il):
            f = kv(li)
            K = int(f.get("polls", "0") or 0)
            t = case.split()
            # every cutoff index up to KMAX, then every third one up to 6 * KMAX, and always the last two
            ks = list(range(1, min(K, KMAX) + 2)) + list(range(KMAX + 2, min(K, 6 * KMAX) + 2, 3))
            for k in sorted(set(ks + [K, K + 1])):
                if k < 1: continue
                lines.append(sline(0, 1, 1, int(t[4]), int(t[5]), int(t[6]), int(t[7]), k, int(t[9])))
                meta.append((case, k, K))
        blocks.append(lines); metas.append(meta)
    impl = run_blocks("impl", blocks, pid)
    model = run_blocks("model", blocks, pid)
    sc.stats["cutoff_points"] = 0; sc.stats["aborted_runs"] = 0
    for I, blk, il, ml, op, meta in zip(insts, blocks, impl, model, opts, metas):
        opt = op[0]
        prev = {}
        for case, li, lm, (base_case, k, K) in zip(blk[1:], il, ml, meta):
            f = kv(li); sc.note_run(case, f); sc.stats["cutoff_points"] += 1
            ctx = describe(I, case, li, lm, optimum=opt, cutoff_poll=k, polls_of_full_run=K)
            if f.get("x") == "0": sc.stats["aborted_runs"] += 1; sc.nontrivial.add(I.line()[:60] + case)
            if len(sc.samples) < 5 and sc.stats["runs"] % 1499 == 1: sc.samples.append(ctx)
            if "CRASH" in f or "HANG" in f:
                sc.chk.violation("property", "maximize() with cutoff at poll %d panics / hangs (%s)" % (k, case), ctx); continue
            lb = int(f["lb"]); ub = int(f["ub"])
            if pid == "C05":
                if opt != "none":
                    o = int(opt)
                    if not (lb <= o <= ub):
                        sc.chk.violation("property", "cutoff at poll %d: bounds [%d, %d] do not enclose the optimum %d (%s)" % (k, lb, ub, o, case), ctx)
                else:
                    if f.get("bv") != "none": sc.chk.violation("property", "cutoff at poll %d: a value is reported for an infeasible problem" % k, ctx)
                for m in consistency_failures(I, f, f.get("x") == "1"):
                    sc.chk.violation("property", "cutoff at poll %d: %s (%s)" % (k, m, case), ctx)
                if f.get("x") == "1" and f.get("bv") != opt:
                    sc.chk.violation("property", "cutoff at poll %d: is_exact = true but value %s is not the optimum %s" % (k, f.get("bv"), opt), ctx)
            else:  # C19
                p = prev.get(base_case)
                if p is not None:
                    (plb, pub, pk) = p
                    if lb < plb: sc.chk.violation("property", "lower bound decreases from %d (cutoff at poll %d) to %d (poll %d) (%s)" % (plb, pk, lb, k, case), ctx)
                    if ub > pub: sc.chk.violation("property", "upper bound increases from %d (cutoff at poll %d) to %d (poll %d) (%s)" % (pub, pk, ub, k, case), ctx)
                prev[base_case] = (lb, ub, k)
                if k == K + 1:
                    if f.get("x") != "1" or f.get("bv") != opt or (opt != "none" and (lb != int(opt) or ub != int(opt))):
                        sc.chk.violation("property", "cutoff after the last poll (%d): run is not exact with both bounds at the optimum %s (%s)" % (k, opt, case), ctx)
            sc.compare_model(I, case, li, lm)
    # the anytime theorems rely on the fringe popping a maximal upper bound: tie the fringe model to the code here as well
    import check_simple
    nseq, fbad = check_simple.nodup_tie(tier, pid + "f")
    sc.stats["fringe_level_sequences"] = nseq
    for (l, a, b, v) in fbad[:5]:
        if v != "OK":
            sc.chk.violation("property", "NoDupFringe does not pop in non-increasing upper-bound order (%s): the upper bound reported at a cutoff is the ub of the last "
                             "popped node, so it is not monotone in the cutoff point / may be exceeded by an open node (ops %s, answers %s)" % (v, l, a),
                             {"ops": l, "impl": a, "model": b, "spec_verdict": v})
        else:
            sc.dis.append((insts[0], l, a, b, "fringe-level"))
    expl = {"C05": "Counting cutoff firing at every poll index 1..K+1 of the uninterrupted run (exhaustive in k) for each instance/configuration: bounds enclose the "
                   "optimum from exhaustive enumeration, solution replays to the lower bound, is_exact only when optimal; the Coq solver model is run with the same "
                   "cutoff index and compared. Parallel part: see C03/C04 runs. Theorem: Assembly.C05_sequential_anytime (any cutoff point).",
            "C19": "All consecutive cutoff indices of each run: lower bound non-decreasing, upper bound non-increasing in k, exact with both bounds at the optimum "
                   "after the last poll; Coq solver model compared at every k. Theorems: Assembly.C19_monotone(_gen), C19_eventually_full (via SolverCutoff.compile_agree)."}[pid]
    return sc.finish(RULE + "; cutoff firing at every poll index of the uninterrupted run", expl,
                     ["cache / dominance / pooled configurations (sequential and parallel): correspondence + oracle only"] if pid == "C05"
                     else ["cache / dominance / pooled configurations: correspondence + oracle only"])


# ================================================================================ C14 (primal)
def check_c14(tier):
    sc = SolveCheck("C14", tier, "proof")
    sc.proofs("C14+C14u", ["C14_seq_solver_correct_with_primal", "C14_set_primal_replaces_only_when_strictly_greater",
                           "C14_primal_never_hides_the_optimum", "C14_primal_never_hides_the_optimum_NoDupFringe"])
    if not sc.build(): return sc.chk.finish()
    n = 40 * (1 if tier == "quick" else 40)
    insts = gen_instances(sc.rng, n, "plain")
    insts += [gen_relaxed_improves(sc.rng.fork()) for _ in range(30 if tier == "quick" else 300)]
    # warm starts of the CACHING solvers on re-converging instances: with an incumbent close to the optimum from the first diagram on, cut-set nodes whose
    # local bound does not beat it get their thresholds from the pruned-children branch of _compute_thresholds
    n_plain = len(insts)
    insts += gen_instances(sc.rng, 45 if tier == "quick" else 450, "reconv")
    enums = oracle_batch([(I.line(), ["O opt", "O enum 0 %d 1 %d" % (I.initval, I.init)]) for I in insts])
    blocks = []; metas = []
    cfgs_plain = [(0, 0, 0, 1, 0), (1, 0, 1, 2, 0), (0, 1, 1, 1, 0), (2, 0, 0, 1, 0), (1, 1, 0, 3, 0)]
    cfgs_cache = [(0, 1, 0, 2, 0), (0, 1, 1, 1, 0), (1, 1, 0, 2, 0), (2, 1, 1, 2, 0), (1, 1, 1, 1, 0)]
    for k, (I, en) in enumerate(zip(insts, enums)):
        cfgs = cfgs_plain if k < n_plain else cfgs_cache
        opt = en[0]
        lines = [I.line()]; meta = []
        if opt != "none":
            items = [(dec_list(it.rpartition(":")[0]), int(it.rpartition(":")[2])) for it in en[1].split()]
            best = [s for s, v in items if v == int(opt)]
            worse = sorted([(v, s) for s, v in items if v < int(opt)], key=lambda t: -t[0])
            primals = [(int(opt), best[0])]
            if worse: primals.append((worse[0][0], worse[0][1]))
            if len(worse) > 3: primals.append((worse[-1][0], worse[-1][1]))
            seqs = [[p] for p in primals]
            if len(primals) >= 2:
                # several set_primal calls: improving order, best first (the later, worse one must NOT replace the incumbent), equal value twice
                seqs += [[primals[1], primals[0]], [primals[0], primals[1]], [primals[0], primals[-1]]]
            if len(best) >= 2: seqs.append([(int(opt), best[0]), (int(opt), best[1])])
            for sq in seqs:
                for (flv, cache, fr, w, dom) in cfgs:
                    lines.append(sline(0, 1, 1, flv, cache, fr, w, 0, dom, primal=[(pv, sorted(sol)) for pv, sol in sq]))
                    meta.append((max(pv for pv, _ in sq), [sorted(sol) for _, sol in sq], sq))
        blocks.append(lines); metas.append(meta)
    impl = run_blocks("impl", blocks, "C14")
    model = run_blocks("model", blocks, "C14")
    sc.stats["primal_optimal"] = 0; sc.stats["primal_suboptimal"] = 0; sc.stats["caller_solution_returned"] = 0
    for I, blk, il, ml, en, meta in zip(insts, blocks, impl, model, enums, metas):
        opt = en[0]
        for case, li, lm, (pv, psols, sq) in zip(blk[1:], il, ml, meta):
            f = kv(li); sc.note_run(case, f)
            ctx = describe(I, case, li, lm, optimum=opt, primal=pv)
            if pv == int(opt): sc.stats["primal_optimal"] += 1
            else: sc.stats["primal_suboptimal"] += 1; sc.nontrivial.add(I.line()[:60] + case)
            if len(sc.samples) < 5 and sc.stats["runs"] % 211 == 1: sc.samples.append(ctx)
            if "CRASH" in f or "HANG" in f:
                sc.chk.violation("property", "maximize() with a warm-start primal panics / hangs", ctx); continue
            want = max(pv, int(opt))
            if f.get("x") != "1" or f.get("bv") != str(want):
                sc.chk.violation("property", "with feasible primal %d the solver returns %s (exact=%s); expected max(primal, optimum) = %d"
                                 % (pv, f.get("bv"), f.get("x"), want), ctx)
            else:
                m = solution_ok(I, f, want)
                if m: sc.chk.violation("property", "solution returned with a warm start does not replay to %d: %s" % (want, m), ctx)
                if dec_list(f.get("sol")) in psols: sc.stats["caller_solution_returned"] += 1
                # set_primal replaces the incumbent only when strictly greater: if the first primal is already optimal and a later one is not
                # better, the solution returned (when it is one of the caller's) must be the FIRST optimal one
                if len(sq) >= 2 and sq[0][0] == int(opt) and sq[1][0] <= sq[0][0] and dec_list(f.get("sol")) == sorted(sq[1][1]) and sorted(sq[1][1]) != sorted(sq[0][1]):
                    sc.chk.violation("property", "set_primal replaced the incumbent although the new value %d is not strictly greater than %d" % (sq[1][0], sq[0][0]), ctx)
                if len(sq) >= 2: sc.stats["primal_sequences"] = sc.stats.get("primal_sequences", 0) + 1
            sc.compare_model(I, case, li, lm)
    # the PARALLEL solver has its own set_primal: un-scheduled 2-thread runs (own process + watchdog each), same oracle
    pcases = []; pmeta = []
    for I, en in list(zip(insts, enums))[:(12 if tier == "quick" else 60)]:
        opt = en[0]
        if opt == "none": continue
        items = [(dec_list(it.rpartition(":")[0]), int(it.rpartition(":")[2])) for it in en[1].split()]
        best = [s_ for s_, v in items if v == int(opt)]
        worse = sorted([(v, s_) for s_, v in items if v < int(opt)], key=lambda t: -t[0])
        seqs = [[(int(opt), best[0])]]
        if worse: seqs += [[(worse[0][0], worse[0][1])], [(int(opt), best[0]), (worse[0][0], worse[0][1])], [(worse[-1][0], worse[-1][1]), (int(opt), best[0])]]
        if len(best) >= 2: seqs.append([(int(opt), best[0]), (int(opt), best[1])])
        for sq in seqs:
            for (flv, cache, fr, w) in ((0, 0, 0, 1), (2, 1, 1, 2)):
                pcases.append((I.line(), sline(1, 2, 2, flv, cache, fr, w, 0, 0, primal=[(pv, sorted(sol)) for pv, sol in sq])))
                pmeta.append((I, int(opt), sq))
    pres = run_par_cases(pcases)
    sc.stats["parallel_warm_start_runs"] = len(pres)
    for (il, case), li, (I, opt, sq) in zip(pcases, pres, pmeta):
        f = kv(li); pv = max(v for v, _ in sq)
        ctx = describe(I, case, li, None, optimum=str(opt), primal=pv)
        if "CRASH" in li or "HANG" in li:
            sc.chk.violation("property", "parallel maximize() with a warm-start primal panics / hangs", ctx); continue
        want = max(pv, opt)
        if f.get("x") != "1" or f.get("bv") != str(want):
            sc.chk.violation("property", "parallel solver with feasible primal %d returns %s (exact=%s); expected %d" % (pv, f.get("bv"), f.get("x"), want), ctx)
        else:
            m = solution_ok(I, f, want)
            if m: sc.chk.violation("property", "parallel solver: solution returned with a warm start does not replay to %d: %s" % (want, m), ctx)
            if len(sq) >= 2 and sq[0][0] == opt and sq[1][0] <= sq[0][0] and dec_list(f.get("sol")) == sorted(sq[1][1]) and sorted(sq[1][1]) != sorted(sq[0][1]):
                sc.chk.violation("property", "parallel set_primal replaced the incumbent although the new value %d is not strictly greater than %d" % (sq[1][0], sq[0][0]), ctx)
    if sc.dis and not any(v[0] == "property" for v in sc.chk.violations):
        # the correspondence broke but every clause held so far: widen the search for a concrete failing warm start (many more re-converging instances,
        # every flavour with and without the cache, primals = the optimum and the three best sub-optimal values)
        wr = Rng(sc.chk.seed + 1477)
        winsts = gen_instances(wr, 300 if tier == "quick" else 1500, "reconv") + [gen_topmerge(wr.fork()) for _ in range(900 if tier == "quick" else 4500)]
        wen = oracle_batch([(I.line(), ["O opt", "O enum 0 %d 1 %d" % (I.initval, I.init)]) for I in winsts])
        wblocks = []; wmeta = []
        for I, en in zip(winsts, wen):
            lines = [I.line()]; meta = []
            if en[0] != "none":
                items = [(dec_list(it.rpartition(":")[0]), int(it.rpartition(":")[2])) for it in en[1].split()]
                byval = {}
                for s_, v in items: byval.setdefault(v, s_)
                vals = sorted(byval, reverse=True)
                for pv in dict.fromkeys(vals[:3] + vals[-1:]):
                    for (flv, cache, fr, w) in ((0, 1, 0, 2), (0, 1, 1, 1), (1, 1, 0, 2), (2, 1, 1, 2), (1, 1, 1, 1), (2, 1, 0, 1), (0, 0, 0, 2), (0, 1, 0, 3)):
                        lines.append(sline(0, 1, 1, flv, cache, fr, w, 0, 0, primal=[(pv, sorted(byval[pv]))])); meta.append(pv)
            wblocks.append(lines); wmeta.append(meta)
        wimpl = run_blocks("impl", wblocks, "C14w")
        nw = 0
        for I, blk, il, en, meta in zip(winsts, wblocks, wimpl, wen, wmeta):
            for case, li, pv in zip(blk[1:], il, meta):
                nw += 1; f = kv(li); want = max(pv, int(en[0]))
                if "CRASH" in f or "HANG" in f or f.get("x") != "1" or f.get("bv") != str(want):
                    sc.chk.violation("property", "widened search: with feasible primal %d the solver returns %s (exact=%s); expected max(primal, optimum) = %d"
                                     % (pv, f.get("bv"), f.get("x"), want), describe(I, case, li, None, optimum=en[0], primal=pv))
        sc.stats["widened_search_runs"] = nw
    return sc.finish(RULE + "; primal = (value, witness solution) taken from the specification's enumeration: optimum, best sub-optimal, worst",
                     "Warm-start runs compared with max(primal, optimum) from exhaustive enumeration and with the Coq solver model started from set_primal.",
                     ["cache / dominance / pooled configurations: correspondence + oracle only"])


# ================================================================================ C15 (long arcs)
def check_c15(tier):
    sc = SolveCheck("C15", tier)
    sc.proofs("C15u", ["C15_pooled_diagram_is_the_frontier_diagram", "C15_pooled_diagram_is_the_frontier_diagram_incl_cache_and_log",
                       "C15_pooled_sequential_solver_is_the_frontier_solver", "C15_pooled_parallel_solver_is_the_frontier_solver",
                       "C15_pooled_sequential_solver_returns_optimum", "C15_pooled_parallel_solver_returns_optimum", "C15_pooled_cutset_covers",
                       "C15_without_the_premise_the_flavours_differ", "C15_dead_end_difference"])
    if not sc.build(): return sc.chk.finish()
    n = 60 * (1 if tier == "quick" else 24)
    insts = gen_instances(sc.rng, n, "longarc")
    corpus = os.path.join(VERIF, "corpus", "C15")
    blocks = []
    for I in insts:
        lines = [I.line()]
        for flv in (2, 0):
            for cache in (0, 1):
                for fr in (0, 1):
                    for w in (1, 2, 3):
                        lines.append(sline(0, 1, 1, flv, cache, fr, w, 0, 0))
        blocks.append(lines)
    impl = run_blocks("impl", blocks, "C15")
    opts = oracle_batch([(I.line(), ["O opt"]) for I in insts])
    sc.stats["hangs_classified_known"] = 0
    for I, blk, il, op in zip(insts, blocks, impl, opts):
        opt = op[0]
        vals = {}
        for case, li in zip(blk[1:], il):
            f = kv(li); sc.note_run(case, f)
            t = case.split()
            ctx = describe(I, case, li, optimum=opt)
            if t[4] == "2": sc.nontrivial.add(I.line()[:80] + case)
            if len(sc.samples) < 5 and sc.stats["runs"] % 499 == 1: sc.samples.append(ctx)
            if "HANG" in f:
                if classify_hang(I, case):
                    sc.stats["hangs_classified_known"] += 1
                    sc.chk.violation("property", "pooled solver does not terminate: a sub-problem is a member of its own cut-set", ctx,
                                     cls="pooled-longarc-subproblem-in-own-cutset")
                else:
                    sc.chk.violation("property", "solver does not terminate on a long-arc model (%s)" % case, ctx)
                continue
            if "CRASH" in f:
                sc.chk.violation("property", "solver panics on a long-arc model (%s)" % case, ctx); continue
            if f.get("x") != "1" or f.get("bv") != opt:
                sc.chk.violation("property", "%s solver returns %s (exact=%s) on a long-arc model, optimum is %s (%s)"
                                 % (FLV[int(t[4])], f.get("bv"), f.get("x"), opt, case), ctx)
            elif opt != "none":
                m = solution_ok(I, f, int(opt))
                if m: sc.chk.violation("property", "default-completed solution is not feasible: %s (%s)" % (m, case), ctx)
    sc.agree = 0; sc.total = 0
    # diagram level, pooled flavour, long arcs AND shared stores (as the caching solvers use the diagram): cache keys, thresholds, pruning flags
    import check_mdd
    st = check_mdd.Stream(sc.chk, tier, types=(2, 1), widths=(1, 2, 3), flavours=(2,), ninst=(60 if tier == "quick" else 600), stores=True, longarcs=True)
    res = st.run()
    ag, ds = check_mdd.correspondence(sc.chk, res, ["status", "cx", "cv", "x", "bv", "ev", "CS", "DOT", "LOG"])
    sc.stats["diagram_level_store_stream"] = {"compilations": sum(len(r) for _, r in res), "agreements": ag, "disagreements": len(ds)}
    for (I, meta, li, lm, case, why) in ds[:10]:
        sc.dis.append((I, case, li[:1200], lm[:1200], "diagram-level (pooled, long arcs, shared stores) " + str(why)))
    if sc.dis and not any(v[0] == "property" for v in sc.chk.violations):
        # the correspondence broke but every clause held so far: widen the search for a concrete failing input (many more long-arc instances,
        # pooled solvers only; hangs of the known class D1 are not failing inputs of a NEW defect and are skipped)
        winsts = gen_instances(Rng(sc.chk.seed + 1577), 1500 if tier == "quick" else 6000, "longarc")
        wblocks = [[I.line()] + [sline(0, 1, 1, 2, cache, fr, w, 0, 0) for cache in (0, 1) for fr in (0, 1) for w in (1, 2, 3)] for I in winsts]
        wimpl = run_blocks("impl", wblocks, "C15w")
        wopts = oracle_batch([(I.line(), ["O opt"]) for I in winsts])
        nw = 0
        for I, blk, il, op in zip(winsts, wblocks, wimpl, wopts):
            for case, li in zip(blk[1:], il):
                nw += 1; f = kv(li)
                if "HANG" in f: continue
                if "CRASH" in f or f.get("x") != "1" or f.get("bv") != op[0]:
                    sc.chk.violation("property", "widened search: pooled solver returns %s (exact=%s) on a long-arc model, optimum is %s (%s)"
                                     % (f.get("bv"), f.get("x"), op[0], case), describe(I, case, li, optimum=op[0]))
        sc.stats["widened_search_runs"] = nw
    return sc.finish("depth-free table models with random irrelevance patterns (a neutral default decision on irrelevant (variable, state) pairs), widths 1..3, "
                     "cache on/off, both fringes; pooled solver vs plain solver (every state expanded on every variable) vs exhaustive enumeration; "
                     "non-trivial = distinct pooled run",
                     "Pooled vs plain vs specification oracle; termination watchdog (poll limit). KNOWN FINDING D1: without cache the pooled solver may not terminate "
                     "because a sub-problem can enter its own frontier cut-set (see KNOWN_FINDINGS.json); the model correspondence for the pooled flavour is in C06-C08.",
                     ["C15_pooled_progress is FALSE on the current code (finding D1)", "C15_pooled_opt (stated, not proved)"])
