"""C16 — every shipped example solver prints the optimum of its problem, and never hangs or crashes.

End-to-end differential test: the example binaries built from /repo's CURRENT working tree, run on generated instance
files (tools/exgen.py) x widths {1,2,3,default} x threads {1,2,4}, against the optimum computed by the OCaml program
extracted from the independent Gallina specifications coq/theories/ExSpec.v (exhaustive enumeration, glue in
extract/exdriver.ml).  Usage:  python3 tools/check_examples.py <quick|thorough>   (or check.py C16 <tier>).
"""
import concurrent.futures, struct
from common import *
import exgen
from gen import Rng

EX_TARGET = os.path.join(BUILD, "examples-target")
EX_BIN = os.path.join(EX_TARGET, "debug", "examples")
EX_ENV = dict(os.environ, CARGO_NET_OFFLINE="true", CARGO_TARGET_DIR=EX_TARGET, RUST_BACKTRACE="0")
EXEXTRACT = os.path.join(BUILD, "exextract")
ORACLE = os.path.join(EXEXTRACT, "exoracle")
RES = "/repo/resources"

RUN_TIMEOUT = 20        # seconds: a binary that runs longer on a tiny instance "hangs" (re-tried once, alone, before it counts)
SLOW = {"golomb": 150}  # golomb n = 8 needs ~7 s per run in a debug build
ORACLE_TIMEOUT = 300
WIDTHS = (1, 2, 3, None)
THREADS = (1, 2, 4)

# how each example binary is driven (see its main.rs).  `threads`: the option exists (knapsack / psp accept it but
# solve sequentially); max2sat, mcp and golomb have no such option ('-t' is their time-out) and always use the
# solver's default thread count.  `sense`: what the binary prints as "Objective" relative to the problem's optimum.
CLI = {
    "knapsack":    dict(file=lambda f: [f], threads=True, sense="max"),
    "misp":        dict(file=lambda f: [f], threads=True, sense="max"),
    "max2sat":     dict(file=lambda f: ["--file", f], threads=False, sense="max"),
    "mcp":         dict(file=lambda f: ["--file", f], threads=False, sense="max"),
    "lcs":         dict(file=lambda f: [f], threads=True, sense="max"),
    "golomb":      dict(file=None, threads=False, sense="negated-min"),       # prints the (negative) solver value
    "sop":         dict(file=lambda f: [f], threads=True, sense="min"),
    "tsptw":       dict(file=lambda f: [f], threads=True, sense="tsptw"),
    "srflp":       dict(file=lambda f: [f], threads=True, sense="min"),
    "talentsched": dict(file=lambda f: [f], threads=True, sense="min"),
    "psp":         dict(file=lambda f: [f], threads=True, sense="min"),
    "alp":         dict(file=lambda f: [f], threads=True, sense="min"),
}

# instances of /repo/resources small enough for the enumeration, with the optimum asserted by the example's tests.rs
# (psp: last line of the instance file; golomb: tests.rs / KNOWN_OPTIMAL_COSTS).  They validate the ORACLE.
KNOWN = [
    ("knapsack", "knapsack/f3_l-d_kp_4_20", "35"), ("knapsack", "knapsack/f4_l-d_kp_4_11", "23"),
    ("knapsack", "knapsack/f7_l-d_kp_7_50", "107"), ("knapsack", "knapsack/f9_l-d_kp_5_80", "130"),
    ("knapsack", "knapsack/f1_l-d_kp_10_269", "295"), ("knapsack", "knapsack/f6_l-d_kp_10_60", "52"),
    ("max2sat", "max2sat/debug.wcnf", "24"), ("max2sat", "max2sat/debug2.wcnf", "13"), ("max2sat", "max2sat/pass.wcnf", "54"),
    ("max2sat", "max2sat/tautology.wcnf", "7"), ("max2sat", "max2sat/unit.wcnf", "6"), ("max2sat", "max2sat/negative_wt.wcnf", "4258"),
    ("sop", "sop/ESC07.sop", "2125"),
    ("tsptw", "tsptw/SolomonPotvinBengio/rc_206.1.txt", "1178479"), ("tsptw", "tsptw/SolomonPotvinBengio/rc_207.4.txt", "1331421"),
    ("srflp", "srflp/Cl5", "1100"), ("srflp", "srflp/Cl6", "1990"), ("srflp", "srflp/Cl7", "4730"), ("srflp", "srflp/Cl8", "6295"),
    ("srflp", "srflp/S8", "801"), ("srflp", "srflp/S8H", "2324.5"),
    ("talentsched", "talentsched/tiny", "29"), ("talentsched", "talentsched/tiny2", "9"),
    ("talentsched", "talentsched/small", "54"), ("talentsched", "talentsched/small2", "56"),
    ("psp", "psp/instancesWith2items/1", "13"), ("psp", "psp/instancesWith2items/2", "54"), ("psp", "psp/instancesWith2items/3", "46"),
    ("psp", "psp/instancesWith2items/4", "2"), ("psp", "psp/instancesWith2items/5", "78"), ("psp", "psp/instancesWith2items/6", "52"),
]
DENSITY = {"knapsack": 3}      # runs of this binary take milliseconds: three times as many generated instances
KNOWN_THOROUGH = [("talentsched", "talentsched/concert", "111")]
GOLOMB_KNOWN = {1: 0, 2: 1, 3: 3, 4: 6, 5: 11, 6: 17, 7: 25, 8: 34}


# ---------------------------------------------------------------------------- builds
def build_examples():
    """cargo build of the example binaries from /repo's current working tree (dev profile: overflow checks on,
    panics unwind with a message; the release profile of the workspace sets panic = 'abort')."""
    with Lock("cargo-examples"):
        p = run(["cargo", "build", "--offline", "--quiet", "--examples"], cwd="/repo", env=EX_ENV, timeout=1800)
        if p.returncode != 0:
            return False, p.stdout[-4000:]
        missing = [e for e in exgen.EXAMPLES if not os.path.exists(os.path.join(EX_BIN, e))]
        if missing:
            return False, "example binaries missing after the build: %s" % missing
        return True, ""


def _newer(target, sources):
    return os.path.exists(target) and all(os.path.getmtime(s) <= os.path.getmtime(target) for s in sources)


def build_oracle():
    spec = os.path.join(COQ, "theories", "ExSpec.v"); vo = os.path.join(COQ, "theories", "ExSpec.vo")
    ext = os.path.join(COQ, "theories", "ExtractEx.v"); drv = os.path.join(VERIF, "extract", "exdriver.ml")
    with Lock("coq"):
        if not _newer(vo, [spec]):
            p = run(["coqc", "-Q", "theories", "DDO", "theories/ExSpec.v"], cwd=COQ, timeout=1800)
            if p.returncode != 0:
                return False, "ExSpec.v does not compile: " + p.stdout[-3000:]
    with Lock("exextract"):
        os.makedirs(EXEXTRACT, exist_ok=True)
        if _newer(ORACLE, [vo, ext, drv]):
            return True, ""
        p = run(["coqc", "-Q", os.path.join(COQ, "theories"), "DDO", ext], cwd=EXEXTRACT, timeout=900)
        if p.returncode != 0:
            return False, p.stdout[-3000:]
        run(["cp", drv, EXEXTRACT], check=True)
        p = run(["ocamlfind", "ocamlopt", "-O2", "-w", "-a", "exmodel.mli", "exmodel.ml", "exdriver.ml", "-o", "exoracle"],
                cwd=EXEXTRACT, timeout=900)
        if p.returncode != 0:
            return False, p.stdout[-3000:]
        return True, ""


def spec_is_clean():
    """no axiom / admitted proof in the specification, and the extraction adds no Extract Constant / Inductive"""
    problems = []
    for f in ("ExSpec.v", "ExtractEx.v"):
        s = re.sub(r"\(\*.*?\*\)", "", open(os.path.join(COQ, "theories", f)).read(), flags=re.S)
        m = FORBIDDEN.search(s)
        if m: problems.append("forbidden vernacular '%s' in %s" % (m.group(1), f))
        if re.search(r"\bExtract\s+(Constant|Inductive|Inlined)", s): problems.append("custom extraction directive in %s" % f)
    return problems


# ---------------------------------------------------------------------------- running both sides
def run_oracle(example, path):
    """-> ('ok', '<value>' | None) or ('error', message)"""
    cmd = ["sh", "-c", 'ulimit -s unlimited 2>/dev/null; ulimit -v 6000000 2>/dev/null; exec "$0" "$@"', ORACLE, example, path]
    try:
        p = subprocess.run(cmd, stdout=subprocess.PIPE, stderr=subprocess.PIPE, text=True, timeout=ORACLE_TIMEOUT)
    except subprocess.TimeoutExpired:
        return ("error", "oracle timed out")
    m = re.match(r"OPT (\S+)\s*$", p.stdout)
    if p.returncode != 0 or not m:
        return ("error", "oracle failed rc=%s out=%r err=%r" % (p.returncode, p.stdout[-200:], p.stderr[-300:]))
    return ("ok", None if m.group(1) == "none" else m.group(1))


def f32(x):
    return struct.unpack("f", struct.pack("f", x))[0]


def expected_output(example, opt):
    """what the binary must print as its objective for the oracle value `opt` (a string, or None = infeasible)"""
    sense = CLI[example]["sense"]
    if sense == "tsptw":
        if opt is None: return "+inf"
        return "%.2f" % f32(f32(float(int(opt))) / f32(10000.0))
    if opt is None:
        return "-1"                       # best_value.unwrap_or(-1) in every main.rs
    if sense == "negated-min":
        return str(-int(opt))
    return opt


def command(example, inst, path, width, threads):
    cmd = [os.path.join(EX_BIN, example)]
    cmd += [inst["arg"]] if CLI[example]["file"] is None else CLI[example]["file"](path)
    if width is not None: cmd += ["--width", str(width)]
    if threads is not None: cmd += ["--threads", str(threads)]
    return cmd


def parse_output(example, out):
    """-> (objective string or None, proved flag)"""
    if example == "tsptw":
        lb = re.search(r"^lower bnd:\s*(\S+)", out, re.M); ub = re.search(r"^upper bnd:\s*(\S+)", out, re.M)
        st = re.search(r"^status\s*:\s*(\S+)", out, re.M)
        if not (lb and ub and st): return None, False
        if lb.group(1) != ub.group(1): return "lb=%s/ub=%s" % (lb.group(1), ub.group(1)), st.group(1) == "Proved"
        return lb.group(1), st.group(1) == "Proved"
    ob = re.search(r"^Objective:\s*(\S+)", out, re.M); ab = re.search(r"^Aborted:\s*(\S+)", out, re.M)
    if not ob: return None, False
    return ob.group(1), (ab is not None and ab.group(1) == "false")


def same_value(a, b):
    if a == b: return True
    try: return float(a) == float(b) and "inf" not in a
    except ValueError: return False


def run_binary(example, inst, path, width, threads, patience=1):
    """-> dict(kind = ok | wrong-objective | hang | crash | not-proved, ...)"""
    cmd = command(example, inst, path, width, threads)
    limit = SLOW.get(example, RUN_TIMEOUT) * patience
    t0 = time.time()
    try:
        p = subprocess.run(cmd, stdout=subprocess.PIPE, stderr=subprocess.PIPE, text=True, timeout=limit, env=EX_ENV)
    except subprocess.TimeoutExpired as e:
        return dict(kind="hang", cmd=cmd, out="(no exit after %d s) %s" % (limit, (e.stdout or b"")[-300:]), got=None, secs=limit)
    secs = time.time() - t0
    out = p.stdout + (("\n[stderr] " + p.stderr[-600:]) if p.stderr.strip() else "")
    if p.returncode != 0 or "panicked" in p.stderr:
        m = re.search(r"panicked at ([^\n]*)\n([^\n]*)", p.stderr)
        why = ("panic at %s %s" % (m.group(1).replace("/repo/", ""), m.group(2))) if m else "exit code %s" % p.returncode
        return dict(kind="crash", cmd=cmd, out="exit code %s\n%s" % (p.returncode, out[-1500:]), got=None, secs=secs, why=why)
    got, proved = parse_output(example, p.stdout)
    if got is None:
        return dict(kind="crash", cmd=cmd, out="no objective in the output\n" + out[-1500:], got=None, secs=secs)
    if not proved:
        return dict(kind="not-proved", cmd=cmd, out=out[-1500:], got=got, secs=secs)
    return dict(kind="ok", cmd=cmd, out=out[-1500:], got=got, secs=secs)


def configs_for(example, full=True, k=0):
    ths = THREADS if CLI[example]["threads"] else (None,)
    cs = [(w, t) for w in WIDTHS for t in ths]
    if full: return cs
    # reduced set for the bounded-exhaustive families: width 1 and default, rotating thread counts
    red = [(1, ths[k % len(ths)]), (None, ths[(k + 1) % len(ths)]), (2, ths[(k + 2) % len(ths)])]
    return red


# ---------------------------------------------------------------------------- the check
def check_c16(tier):
    chk = Check("C16", tier, "other")
    rng = Rng(chk.seed ^ 0xC16)
    import check_kp, check_misp
    pr = check_proofs("C16u+C16m", check_kp.PINNED + check_misp.PINNED)
    proof_coverage(chk, pr, "make theories/Props/C16u.vo && coqc theories/Props/C16u.v (Print Assumptions scanned)")
    chk.assumptions += [
        "oracle = OCaml extraction of coq/theories/ExSpec.v (exhaustive enumeration; no DP); extract/exdriver.ml re-parses the "
        "instance text independently of the Rust readers (trusted glue, like tools/*.py)",
        "example binaries = `cargo build --offline --examples` (dev profile: integer-overflow checks on) of /repo's working tree",
        "instance sizes are tiny (enumeration must finish): n <= 8 items/vertices/scenes, <= 6 permuted nodes, <= 6 periods, <= 5 aircraft",
        "max2sat, mcp, golomb binaries have no thread option (always the default thread count); knapsack and psp accept "
        "--threads but solve sequentially; sop/tsptw/srflp --width is the multiplier of their own width heuristics",
        "tsptw numbers are decimal binary32 values in units of 1/10000 (the example's own definition); generated values are "
        "multiples of 1/4 so that no rounding is involved; the printed objective has two decimals",
        "the oracle is validated on every repository instance small enough to enumerate whose optimum is asserted by the examples' "
        "tests.rs (knapsack, max2sat, sop, tsptw, srflp, talentsched, psp, golomb); misp, mcp, lcs, alp have no such instance",
        "generated instances satisfy the unstated conventions of the formats (symmetric srflp flows, 0/1 psp demands, "
        "tsptw/alp triangle inequality, sop first/last node fixed by precedences) except in the explicitly tagged shapes "
        "(finding classes other than <example>-core / <example>-infeasible)",
    ]
    problems = spec_is_clean()
    ok, msg = build_examples()
    if not ok: problems.append("example binaries do not build: " + msg)
    ok, msg = build_oracle()
    if not ok: problems.append("oracle does not build: " + msg)
    if problems:
        for p in problems:
            chk.violation("unproved", p, {"problem": p})
        chk.cov.update(evaluations=0, explanation="build failure")
        return chk.finish()

    head = run(["git", "rev-parse", "--short", "HEAD"], cwd="/repo").stdout.strip()
    dirty = run(["git", "status", "--short"], cwd="/repo").stdout.strip().split("\n")
    chk.cov["repo_state_at_build"] = {"head": head, "modified_files": [d for d in dirty if d][:20]}

    # ---- 1. the oracle reproduces the optima documented in the repository
    known = KNOWN + (KNOWN_THOROUGH if tier == "thorough" else [])
    gol_max = 8 if tier == "thorough" else 7
    def vk(item):
        ex, rel, want = item
        return item, run_oracle(ex, os.path.join(RES, rel))
    with concurrent.futures.ThreadPoolExecutor(max_workers=8) as pool:
        kres = list(pool.map(vk, known))
    validated = {}
    for (ex, rel, want), (st, got) in kres:
        validated.setdefault(ex, [0, 0])[1] += 1
        if st == "ok" and got == want:
            validated[ex][0] += 1
        else:
            chk.violation("unproved", "oracle disagrees with the optimum documented in the repository: %s %s expected %s got %s"
                          % (ex, rel, want, got), {"example": ex, "instance_file": os.path.join(RES, rel), "expected": want, "oracle": got})

    # ---- 2. instances
    n_random = 40 if tier == "quick" else 300
    work = []          # (example, inst, path, full_configs)
    dist = {}
    for ex in exgen.EXAMPLES:
        d = workfile("c16_%s" % ex); os.makedirs(d, exist_ok=True)
        insts = exgen.generate(ex, rng.fork(), n_random * DENSITY.get(ex, 1))
        if ex == "golomb":
            insts = exgen.gen_golomb_all(gol_max)
        items = [(i, True) for i in exgen.corpus(ex)] + [(i, True) for i in insts]
        if tier == "thorough":
            items += [(i, False) for i in exgen.exhaustive(ex)]
        dd = dist.setdefault(ex, {"random": 0, "exhaustive": 0, "corpus": len(exgen.corpus(ex)), "shapes": {}, "sizes": {}})
        for k, (ins, full) in enumerate(items):
            path = os.path.join(d, "i%05d.txt" % k)
            with open(path, "w") as f: f.write(ins["text"])
            work.append((ex, ins, path, full, k))
            if ins["shape"] != "corpus": dd["random" if full else "exhaustive"] += 1
            dd["shapes"][ins["shape"]] = dd["shapes"].get(ins["shape"], 0) + 1
            dd["sizes"][str(ins["size"])] = dd["sizes"].get(str(ins["size"]), 0) + 1

    # ---- 3. oracle on every instance, binaries on every (instance, configuration)
    def do_oracle(w):
        return run_oracle(w[0], w[2])
    with concurrent.futures.ThreadPoolExecutor(max_workers=14) as pool:
        oracle = list(pool.map(do_oracle, work))
    jobs = []
    for wi, (ex, ins, path, full, k) in enumerate(work):
        if ex == "golomb":                      # the oracle reproduces the published optimal ruler lengths
            validated.setdefault(ex, [0, 0])[1] += 1
            if oracle[wi] == ("ok", str(GOLOMB_KNOWN[ins["size"]])):
                validated[ex][0] += 1
            else:
                chk.violation("unproved", "oracle disagrees with the known optimal Golomb ruler for n=%d: %s" % (ins["size"], oracle[wi][1]),
                              {"example": ex, "n": ins["size"], "oracle": oracle[wi][1]})
        if oracle[wi][0] != "ok":
            chk.violation("unproved", "the oracle failed on a generated %s instance: %s" % (ex, oracle[wi][1]),
                          {"example": ex, "instance": ins["text"], "oracle": oracle[wi][1]})
            continue
        for (w, t) in configs_for(ex, full, k):
            jobs.append((wi, w, t))
    def do_job(j):
        wi, w, t = j
        ex, ins, path, full, k = work[wi]
        return run_binary(ex, ins, path, w, t)
    t_run = time.time()
    with concurrent.futures.ThreadPoolExecutor(max_workers=12) as pool:
        results = list(pool.map(do_job, jobs))
    # a time-out under the load of the parallel runs is re-tried alone, with twice the patience, before it counts as a hang
    # (at most eight re-tries: when those still hang the others are not re-tried, a genuinely hanging binary would otherwise cost
    # 40 s per run, one after the other)
    retried = 0; still = 0
    for ji, res in enumerate(results):
        if res["kind"] == "hang":
            if retried >= 8 and still == retried: continue
            wi, w, t = jobs[ji]
            ex, ins, path, full, k = work[wi]
            results[ji] = run_binary(ex, ins, path, w, t, patience=2); retried += 1
            if results[ji]["kind"] == "hang": still += 1
    t_run = time.time() - t_run

    # ---- 4. compare
    per = {ex: {"instances": 0, "runs": 0, "agree": 0, "infeasible_instances": 0, "distinct_optima": set(), "failures": {},
                "max_secs": 0.0, "oracle_validated_on_repo_optima": "%d/%d" % tuple(validated.get(ex, [0, 0]))} for ex in exgen.EXAMPLES}
    for wi, (ex, ins, path, full, k) in enumerate(work):
        if oracle[wi][0] == "ok":
            per[ex]["instances"] += 1
            if oracle[wi][1] is None: per[ex]["infeasible_instances"] += 1
            else: per[ex]["distinct_optima"].add(oracle[wi][1])
    failures = []
    samples = []
    for (wi, w, t), res in zip(jobs, results):
        ex, ins, path, full, k = work[wi]
        opt = oracle[wi][1]
        want = expected_output(ex, opt)
        pe = per[ex]; pe["runs"] += 1; pe["max_secs"] = max(pe["max_secs"], round(res["secs"], 2))
        kind = res["kind"]
        if kind == "ok" and not same_value(res["got"], want):
            kind = "wrong-objective"
        if kind == "ok":
            pe["agree"] += 1
            if sum(1 for x in samples if x["example"] == ex) < 3 and (wi + (w or 0)) % 7 == 3:
                samples.append({"example": ex, "shape": ins["shape"], "width": w, "threads": t, "oracle": opt, "printed": res["got"]})
            continue
        cls = ins["cls"] if opt is not None else "%s-infeasible" % ex
        pe["failures"]["%s/%s" % (cls, kind)] = pe["failures"].get("%s/%s" % (cls, kind), 0) + 1
        failures.append((ins["size"], len(ins["text"]), ex, cls, kind, ins, opt, want, res, w, t))
    # most significant first: wrong objectives on the core distribution, then the tagged shapes, then crashes on infeasible
    # instances; within a class the smallest instance first (it becomes the replay)
    def rank(f):
        cls, kind = f[3], f[4]
        return (0 if cls.endswith("-core") else 2 if cls.endswith("-infeasible") else 1,
                {"wrong-objective": 0, "hang": 1, "not-proved": 2, "crash": 3}[kind], f[0], f[1])
    failures.sort(key=rank)
    with open(workfile("c16_failures.json"), "w") as f:       # scratch copy of every failing run, for triage
        json.dump([{"example": x[2], "class": x[3], "kind": x[4], "shape": x[5]["shape"], "instance": x[5]["text"], "oracle": x[6],
                    "expected": x[7], "got": x[8]["got"], "why": x[8].get("why"), "width": x[9], "threads": x[10],
                    "command": " ".join(x[8]["cmd"])} for x in failures], f, indent=1)
    findings = {}
    for x in failures:
        fk = "%s/%s" % (x[3], x[4])
        if fk not in findings:
            findings[fk] = {"failing_runs": 0, "smallest_instance": x[5]["text"], "command": " ".join(x[8]["cmd"]), "oracle": x[6],
                            "expected": x[7], "printed": x[8]["got"], "why": x[8].get("why")}
        findings[fk]["failing_runs"] += 1
    chk.cov["failure_classes"] = findings
    seen_cls = {}
    for (size, _, ex, cls, kind, ins, opt, want, res, w, t) in failures:
        key = (cls, kind)
        seen_cls[key] = seen_cls.get(key, 0) + 1
        if seen_cls[key] > 3: continue           # the smallest witnesses of each class are enough
        what = {"wrong-objective": "prints objective %s, the enumeration gives %s" % (res["got"], want),
                "hang": "does not terminate within %d s" % res["secs"], "crash": "crashes (%s)" % res.get("why", res["out"].strip().split("\n")[-1])[:200],
                "not-proved": "reports an aborted / unproved search without any cutoff"}[kind]
        chk.violation("property", "example %s (%s, shape %s, width %s, threads %s) %s" % (ex, cls, ins["shape"], w, t, what),
                      {"example": ex, "class": cls, "shape": ins["shape"], "instance": ins["text"], "instance_arg": ins["arg"],
                       "command": " ".join(res["cmd"]), "width": w, "threads": t, "binary_output": res["out"],
                       "oracle_optimum": opt, "expected_objective": want, "failure": kind},
                      cls="%s-%s" % (cls, kind))

    # ---- 5. knapsack: the Coq MODEL of the example (Knapsack.v, theorem kp_C01) vs the example's own source compiled into the harness
    kp = check_kp.kp_correspondence(chk, Rng(chk.seed ^ 0x16A), tier)
    if isinstance(kp, tuple):
        kpstats, kpdis = kp
        chk.cov["knapsack_model_correspondence"] = kpstats
        if kpdis:
            # the end-to-end runs above ARE the search for a failing input: none was found
            kind, msg, ctx = kpdis[0]
            chk.violation("unproved", "knapsack example: " + msg, dict(ctx, theorem="kp_C01 (Props/C16u.v) is about a model that no longer matches ddo/examples/knapsack/main.rs",
                                                                         other_disagreements=[m for _, m, _ in kpdis[1:6]]))
    else:
        chk.cov["knapsack_model_correspondence"] = kp
    # ---- 6. misp: the Coq MODEL of the example (Misp.v, theorems C16_misp_*) vs the example's own source (through its own parser)
    mp = check_misp.misp_correspondence(chk, Rng(chk.seed ^ 0x16B), tier)
    if isinstance(mp, tuple):
        mpstats, mpdis = mp
        chk.cov["misp_model_correspondence"] = mpstats
        concrete = [d for d in mpdis if d[0] == "optimum"]
        if concrete:
            kind, msg, ctx = concrete[0]
            chk.violation("property", "misp example: " + msg, dict(ctx, other=[m for _, m, _ in concrete[1:6]]), cls="misp-model-optimum")
        elif mpdis:
            kind, msg, ctx = mpdis[0]
            chk.violation("unproved", "misp example: " + msg, dict(ctx, theorem="the C16_misp_* theorems (Props/C16m.v) are about a model that no longer matches ddo/examples/misp/main.rs",
                                                                    other_disagreements=[m for _, m, _ in mpdis[1:6]]))
    else:
        chk.cov["misp_model_correspondence"] = mp
    for ex in per:
        per[ex]["distinct_optima"] = len(per[ex]["distinct_optima"])
    total_runs = sum(p["runs"] for p in per.values())
    chk.cov.update(
        evaluations=total_runs,
        distinct_nontrivial=sum(p["distinct_optima"] for p in per.values()),
        rule="for every generated instance file and every configuration: the binary exits with code 0 within %d s, reports a "
             "proved optimum, and the printed objective equals the optimum of the extracted exhaustive-enumeration specification "
             "(sign / scaling conventions of each main.rs applied; infeasible = -1, tsptw +inf)" % RUN_TIMEOUT,
        configurations={"widths": ["1", "2", "3", "default"], "threads": list(THREADS)},
        per_example=per, input_distribution=dist, samples=samples,
        oracle_validation={"instances_with_documented_optimum": sum(v[1] for v in validated.values()),
                           "reproduced": sum(v[0] for v in validated.values()),
                           "not_validated_this_way": "misp, mcp, lcs, alp: every instance of the repository is too large for the enumeration"},
        failing_runs=len(failures), binaries_wall_s=round(t_run, 1), timeouts_retried_alone=retried,
        explanation="12 example binaries built from the working tree; %d instance files (%s per example from the seeded "
                    "generators%s); each run in its own process with a watchdog; oracle = extracted Coq enumeration"
                    % (len(work), n_random, ", plus the bounded-exhaustive families of the smallest sizes" if tier == "thorough" else ""),
    )
    return chk.finish()


if __name__ == "__main__":
    sys.exit(check_c16(sys.argv[1] if len(sys.argv) > 1 else "quick"))
