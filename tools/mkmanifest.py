"""Writes MANIFEST.json from the table below (kept in one place so that it always validates)."""
import json, os
VERIF = os.path.dirname(os.path.dirname(os.path.abspath(__file__)))
ALL = ["C%02d" % i for i in range(1, 21)]

TB = ("Trusted: Coq 8.16.1 kernel; no axioms of our own (Print Assumptions allow-list checked every run); hand-written model tied to the code only by "
      "the differential correspondence run (Rust harness built from /repo's working tree vs OCaml extracted with ExtrOcamlBasic); extract/driver.ml, "
      "tools/*.py and harness/src/*.rs are trusted glue. ")

CHECKS = {
 "C17": dict(cat="proof", design="7.17",
   text="Closed Coq theorems (Flocq binary32) for every pair of isize bounds: never NaN, never negative, 1 while a bound is infinite, 0 iff bounds "
        "coincide, <= 1 for bounds of one sign; refutation witnesses for the pre-fix code. The model is tied to Solver::gap by bit-exact differential "
        "runs on a grid + random pairs; the property clauses are also evaluated directly on the implementation's answers.",
   note=TB + "Assumes IEEE-754 conformity of `as f32` and f32 division on the target; Flocq's classical real-number axioms "
        "(sig_not_dec, sig_forall_dec, functional_extensionality_dep, classic).",
   technique="Coq/Flocq proof over all isize pairs + bit-exact model/code correspondence"),
 "C18": dict(cat="proof", design="7.18",
   text="Closed Coq theorems for every operation sequence: the cache model reads back the maximum (value, explored) threshold recorded since the last "
        "clear of that layer, clear_layer touches no other layer, thresholds never decrease, any two interleavings of the same updates leave the same "
        "content, no update is lost; the dominance store answers a later query from the SET of recorded states only (Pareto front), independent of "
        "insertion order. Tied to SimpleCache / SimpleDominanceChecker by exhaustive short + random long operation sequences and 2..16-thread phases.",
   note=TB + "Real-thread atomicity is ASSUMED from dashmap (each trait method = one per-key map operation) and only stress-tested.",
   technique="Coq refinement proof to a sequential spec + commutation lemmas; exhaustive op-sequence correspondence"),
 "C11": dict(cat="proof", design="7.11",
   text="Closed Coq theorems about a faithful model of the indexed binary heap of NoDupFringe (states map keyed by (state, depth) as after the fix:, nodes, pos, "
        "heap, recycle bin, bubble up/down) for EVERY operation sequence: no panic, representation invariant, step-by-step simulation by an abstract "
        "coalescing priority queue (nothing lost or invented, pop returns a MaxUB-maximal entry, length = poppable items), successive pops non-increasing in "
        "(ub, value), survivor keeps the larger value with its own path and the larger ub, coalescing only for equal (state, depth); refutation witness for the "
        "pre-fix code. Tied to the code by exhaustive short + long random operation sequences (exact answer equality) and by replaying the answers of BOTH "
        "fringes against the abstract queue.",
   note=TB + "SimpleFringe is binary_heap_plus (external): specified by the abstract queue and tested only.",
   technique="Coq refinement proof (heap model -> abstract priority queue) + exhaustive op-sequence correspondence"),
 "C10": dict(cat="other", design="7.10",
   text="Checker level: closed Coq theorems (partial_cmp is the component-wise order, verdict <-> an earlier query strictly dominates, store is an "
        "antichain, threshold soundness, cmp ranks the dominator first) for every query sequence, tied to the code by exhaustive + random differential "
        "runs with the Pareto-front specification as oracle. Solver level (pruning never changes the optimum) is an OPEN obligation validated only by "
        "solver runs against exhaustive enumeration.",
   note=TB + "Open: C10_search_sound.",
   technique="Coq proof (checker) + differential correspondence; solver-level by oracle comparison"),
 "C06": dict(cat="other", design="7.6",
   text="relaxed diagrams: valid upper bound, truthful exactness. An executable Coq model of the three diagram implementations (Mdd.v: clean LEL / frontier / pooled, one parametric transliteration) is compared "
        "with the code on every compilation of the stream (API results, drained cut-set, full DOT dump with node ids/flags/bounds/thresholds/edges, callback log): "
        "any behavioural change of the diagram code breaks the correspondence. The property's clauses are evaluated on the implementation's answers with the "
        "extracted Coq specification (exhaustive enumeration of the sub-problem) as oracle. Theorems about the model are registered in Props/C06.v as they are "
        "closed; the semantic bound/cover theorems are still open obligations (listed in the evidence).",
   note=TB + "Hash-map iteration order is abstracted (layers sorted by a total DominanceChecker comparator; tie among equally valued terminals = oracle argument).",
   technique="executable Coq model + differential correspondence + specification oracle; partial Coq theorems"),
 "C07": dict(cat="other", design="7.7",
   text="restricted diagrams: feasible lower bounds; exact mode optimal. An executable Coq model of the three diagram implementations (Mdd.v: clean LEL / frontier / pooled, one parametric transliteration) is compared "
        "with the code on every compilation of the stream (API results, drained cut-set, full DOT dump with node ids/flags/bounds/thresholds/edges, callback log): "
        "any behavioural change of the diagram code breaks the correspondence. The property's clauses are evaluated on the implementation's answers with the "
        "extracted Coq specification (exhaustive enumeration of the sub-problem) as oracle. Theorems about the model are registered in Props/C07.v as they are "
        "closed; the semantic bound/cover theorems are still open obligations (listed in the evidence).",
   note=TB + "Hash-map iteration order is abstracted (layers sorted by a total DominanceChecker comparator; tie among equally valued terminals = oracle argument).",
   technique="executable Coq model + differential correspondence + specification oracle; partial Coq theorems"),
 "C08": dict(cat="other", design="7.8",
   text="cut-sets: exact, progressing, validly bounded, covering. An executable Coq model of the three diagram implementations (Mdd.v: clean LEL / frontier / pooled, one parametric transliteration) is compared "
        "with the code on every compilation of the stream (API results, drained cut-set, full DOT dump with node ids/flags/bounds/thresholds/edges, callback log): "
        "any behavioural change of the diagram code breaks the correspondence. The property's clauses are evaluated on the implementation's answers with the "
        "extracted Coq specification (exhaustive enumeration of the sub-problem) as oracle. Theorems about the model are registered in Props/C08.v as they are "
        "closed; the semantic bound/cover theorems are still open obligations (listed in the evidence).",
   note=TB + "Hash-map iteration order is abstracted (layers sorted by a total DominanceChecker comparator; tie among equally valued terminals = oracle argument).",
   technique="executable Coq model + differential correspondence + specification oracle; partial Coq theorems"),
 "C12": dict(cat="other", design="7.12",
   text="callback protocol. An executable Coq model of the three diagram implementations (Mdd.v: clean LEL / frontier / pooled, one parametric transliteration) is compared "
        "with the code on every compilation of the stream (API results, drained cut-set, full DOT dump with node ids/flags/bounds/thresholds/edges, callback log): "
        "any behavioural change of the diagram code breaks the correspondence. The property's clauses are evaluated on the implementation's answers with the "
        "extracted Coq specification (exhaustive enumeration of the sub-problem) as oracle. Theorems about the model are registered in Props/C12.v as they are "
        "closed; the semantic bound/cover theorems are still open obligations (listed in the evidence).",
   note=TB + "Hash-map iteration order is abstracted (layers sorted by a total DominanceChecker comparator; tie among equally valued terminals = oracle argument).",
   technique="executable Coq model + differential correspondence + specification oracle; partial Coq theorems"),
 "C13": dict(cat="other", design="7.13",
   text="maximum width bounds the work per layer; combinators never yield 0. An executable Coq model of the three diagram implementations (Mdd.v: clean LEL / frontier / pooled, one parametric transliteration) is compared "
        "with the code on every compilation of the stream (API results, drained cut-set, full DOT dump with node ids/flags/bounds/thresholds/edges, callback log): "
        "any behavioural change of the diagram code breaks the correspondence. The property's clauses are evaluated on the implementation's answers with the "
        "extracted Coq specification (exhaustive enumeration of the sub-problem) as oracle. Theorems about the model are registered in Props/C13.v as they are "
        "closed; the semantic bound/cover theorems are still open obligations (listed in the evidence).",
   note=TB + "Hash-map iteration order is abstracted (layers sorted by a total DominanceChecker comparator; tie among equally valued terminals = oracle argument).",
   technique="executable Coq model + differential correspondence + specification oracle; partial Coq theorems"),
 "C20": dict(cat="other", design="7.20",
   text="as_graphviz total and faithful. An executable Coq model of the three diagram implementations (Mdd.v: clean LEL / frontier / pooled, one parametric transliteration) is compared "
        "with the code on every compilation of the stream (API results, drained cut-set, full DOT dump with node ids/flags/bounds/thresholds/edges, callback log): "
        "any behavioural change of the diagram code breaks the correspondence. The property's clauses are evaluated on the implementation's answers with the "
        "extracted Coq specification (exhaustive enumeration of the sub-problem) as oracle. Theorems about the model are registered in Props/C20.v as they are "
        "closed; the semantic bound/cover theorems are still open obligations (listed in the evidence).",
   note=TB + "Hash-map iteration order is abstracted (layers sorted by a total DominanceChecker comparator; tie among equally valued terminals = oracle argument).",
   technique="executable Coq model + differential correspondence + specification oracle; partial Coq theorems"),
}

def main():
    checks = []
    for pid in ALL:
        if pid not in CHECKS: continue
        c = CHECKS[pid]
        checks.append({
            "property_id": pid,
            "quick_cmd": "bin/check %s quick" % pid,
            "thorough_cmd": "bin/check %s thorough" % pid,
            "evidence_file": "/verif/evidence/%s.json" % pid,
            "replay_cmd_template": "bin/check %s quick --replay {path}" % pid,
            "engine": "coq-model+correspondence",
            "level_claimed": {"category": c["cat"], "text": c["text"], "design_ref": "DESIGN.md section " + c["design"]},
            "level_note": c["note"],
            "technique": c["technique"],
        })
    na = [{"property_id": p, "reason": "check under construction in this session (model exists or is being written; not yet registered)"}
          for p in ALL if p not in CHECKS]
    m = {
        "version": 1,
        "setup_cmd": "bin/setup",
        "hooks": {"guard": "cargo feature xgillard_ddo_verif (crate ddo)", "enable": "harness built with --features hooks (parallel scheduler checks only)",
                  "baseline_off_cmd": "cd /repo && cargo test --workspace --no-fail-fast --offline", "source_commits": [], "add_only": True},
        "engines": [{"name": "coq-model+correspondence", "path": "/verif/coq /verif/extract /verif/harness /verif/tools",
                     "serves_properties": [c["property_id"] for c in checks],
                     "kind_free_text": "Coq 8.16 model + theorems; OCaml extraction; Rust differential harness; Python driver"}],
        "checks": checks,
        "not_applicable": na,
        "notes": "See DESIGN.md. Genuine defects repaired in /repo by 'fix:' commits are listed in KNOWN_FINDINGS.json.",
    }
    json.dump(m, open(os.path.join(VERIF, "MANIFEST.json"), "w"), indent=1)
main()
