"""Writes MANIFEST.json from the table below (kept in one place so that it always validates)."""
import json, os
VERIF = os.path.dirname(os.path.dirname(os.path.abspath(__file__)))
ALL = ["C%02d" % i for i in range(1, 21)]

TB = ("Trusted: Coq 8.16.1 kernel; no axioms of our own (Print Assumptions allow-list checked every run); hand-written model tied to the code only by "
      "the differential correspondence run (Rust harness built from /repo's working tree vs OCaml extracted with ExtrOcamlBasic); extract/driver.ml, "
      "tools/*.py and harness/src/*.rs are trusted glue. ")

CHECKS = {
 "C17": dict(cat="proof", design="7.17",
   text="Closed Coq theorems (Flocq binary32) for every pair of isize bounds: never NaN, never negative, 1 while a bound is infinite, 0 iff bounds "
        "coincide, <= 1 for bounds of one sign; refutation witnesses for the pre-fix code. The model is tied to Solver::gap by bit-exact differential "
        "runs on a grid + random pairs; the property clauses are also evaluated directly on the implementation's answers.",
   note=TB + "Assumes IEEE-754 conformity of `as f32` and f32 division on the target; Flocq's classical real-number axioms "
        "(sig_not_dec, sig_forall_dec, functional_extensionality_dep, classic).",
   technique="Coq/Flocq proof over all isize pairs + bit-exact model/code correspondence"),
 "C18": dict(cat="proof", design="7.18",
   text="Closed Coq theorems for every operation sequence: the cache model reads back the maximum (value, explored) threshold recorded since the last "
        "clear of that layer, clear_layer touches no other layer, thresholds never decrease, any two interleavings of the same updates leave the same "
        "content, no update is lost; the dominance store answers a later query from the SET of recorded states only (Pareto front), independent of "
        "insertion order. Tied to SimpleCache / SimpleDominanceChecker by exhaustive short + random long operation sequences and 2..16-thread phases.",
   note=TB + "Real-thread atomicity is ASSUMED from dashmap (each trait method = one per-key map operation) and only stress-tested.",
   technique="Coq refinement proof to a sequential spec + commutation lemmas; exhaustive op-sequence correspondence"),
 "C10": dict(cat="other", design="7.10",
   text="Checker level: closed Coq theorems (partial_cmp is the component-wise order, verdict <-> an earlier query strictly dominates, store is an "
        "antichain, threshold soundness, cmp ranks the dominator first) for every query sequence, tied to the code by exhaustive + random differential "
        "runs with the Pareto-front specification as oracle. Solver level (pruning never changes the optimum) is an OPEN obligation validated only by "
        "solver runs against exhaustive enumeration.",
   note=TB + "Open: C10_search_sound.",
   technique="Coq proof (checker) + differential correspondence; solver-level by oracle comparison"),
}

def main():
    checks = []
    for pid in ALL:
        if pid not in CHECKS: continue
        c = CHECKS[pid]
        checks.append({
            "property_id": pid,
            "quick_cmd": "bin/check %s quick" % pid,
            "thorough_cmd": "bin/check %s thorough" % pid,
            "evidence_file": "/verif/evidence/%s.json" % pid,
            "replay_cmd_template": "bin/check %s quick --replay {path}" % pid,
            "engine": "coq-model+correspondence",
            "level_claimed": {"category": c["cat"], "text": c["text"], "design_ref": "DESIGN.md section " + c["design"]},
            "level_note": c["note"],
            "technique": c["technique"],
        })
    na = [{"property_id": p, "reason": "check under construction in this session (model exists or is being written; not yet registered)"}
          for p in ALL if p not in CHECKS]
    m = {
        "version": 1,
        "setup_cmd": "bin/setup",
        "hooks": {"guard": "cargo feature xgillard_ddo_verif (crate ddo)", "enable": "harness built with --features hooks (parallel scheduler checks only)",
                  "baseline_off_cmd": "cd /repo && cargo test --workspace --no-fail-fast --offline", "source_commits": [], "add_only": True},
        "engines": [{"name": "coq-model+correspondence", "path": "/verif/coq /verif/extract /verif/harness /verif/tools",
                     "serves_properties": [c["property_id"] for c in checks],
                     "kind_free_text": "Coq 8.16 model + theorems; OCaml extraction; Rust differential harness; Python driver"}],
        "checks": checks,
        "not_applicable": na,
        "notes": "See DESIGN.md. Genuine defects repaired in /repo by 'fix:' commits are listed in KNOWN_FINDINGS.json.",
    }
    json.dump(m, open(os.path.join(VERIF, "MANIFEST.json"), "w"), indent=1)
main()
