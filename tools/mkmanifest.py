"""Writes MANIFEST.json from the table below (kept in one place so that it always validates)."""
import json, os
VERIF = os.path.dirname(os.path.dirname(os.path.abspath(__file__)))
ALL = ["C%02d" % i for i in range(1, 21)]

TB = ("Trusted: Coq 8.16.1 kernel; no axioms of our own (Print Assumptions allow-list checked every run); hand-written model tied to the code only by "
      "the differential correspondence run (Rust harness built from /repo's working tree vs OCaml extracted with ExtrOcamlBasic); extract/driver.ml, "
      "tools/*.py and harness/src/*.rs are trusted glue. ")

ASM = "Premises (all about the user's model / configuration, see DESIGN.md section 4): clean diagram flavours (LEL, frontier), no cache, no dominance rule, SimpleFringe, width >= 1, static variable order, a covering relation making merge / relax / the rough bound sound, bounded domains, values of feasible runs within [-B, B] with 2B <= isize::MAX; shown satisfiable by a table family the correspondence harness runs (TableWf.v). "
TIE = "The solver / protocol model is compared run by run with the code in every configuration (3 flavours x cache x fringe x widths x dominance) and the implementation's answers with exhaustive enumeration extracted from the Coq specification; pooled / cache / dominance / NoDupFringe configurations are covered by that correspondence + oracle only. "

DIA = "An executable Coq model of the three diagram implementations (Mdd.v: clean LEL / frontier / pooled, one parametric transliteration) is compared with the code on every compilation of the stream (API results, drained cut-set, full DOT dump with node ids / flags / bounds / thresholds / edges, callback log), with histories on one diagram object per flavour on the implementation side; the property's clauses are evaluated on the implementation's answers with the extracted Coq specification (exhaustive enumeration of the sub-problem) as oracle; a widened failing-input search runs when the correspondence breaks. The pooled flavour is covered by that correspondence + oracle only. "
PREM = "Premises: clean flavours, no cache / dominance rule, width >= 1, static variable order, a covering relation making merge / relax / the rough bound sound (machine-integer variant), values of feasible runs within [-B, B], 2B <= isize::MAX; proved for the harness's table family (table_* theorems, concrete instances with strict gaps). "
DNOTE = TB + "Hash-map iteration order is abstracted (layers sorted by a total DominanceChecker comparator; tie among equally valued terminals = oracle argument, theorems hold for every value of it)."
DTECH = "Coq proof about the diagram model (invariants + simulation) + differential correspondence + specification oracle"

CHECKS = {
 "C17": dict(cat="proof", design="7.17",
   text="Closed Coq theorems (Flocq binary32) for every pair of isize bounds: never NaN, never negative, 1 while a bound is infinite, 0 iff bounds "
        "coincide, <= 1 for bounds of one sign; refutation witnesses for the pre-fix code. The model is tied to Solver::gap by bit-exact differential "
        "runs on a grid + random pairs; the property clauses are also evaluated directly on the implementation's answers.",
   note=TB + "Assumes IEEE-754 conformity of `as f32` and f32 division on the target; Flocq's classical real-number axioms "
        "(sig_not_dec, sig_forall_dec, functional_extensionality_dep, classic).",
   technique="Coq/Flocq proof over all isize pairs + bit-exact model/code correspondence"),
 "C18": dict(cat="proof", design="7.18",
   text="Closed Coq theorems for every operation sequence: the cache model reads back the maximum (value, explored) threshold recorded since the last "
        "clear of that layer, clear_layer touches no other layer, thresholds never decrease, any two interleavings of the same updates leave the same "
        "content, no update is lost; the dominance store answers a later query from the SET of recorded states only (Pareto front), independent of "
        "insertion order. Tied to SimpleCache / SimpleDominanceChecker by exhaustive short + random long operation sequences and 2..16-thread phases.",
   note=TB + "Real-thread atomicity is ASSUMED from dashmap (each trait method = one per-key map operation) and only stress-tested.",
   technique="Coq refinement proof to a sequential spec + commutation lemmas; exhaustive op-sequence correspondence"),
 "C11": dict(cat="proof", design="7.11",
   text="Closed Coq theorems about a faithful model of the indexed binary heap of NoDupFringe (states map keyed by (state, depth) as after the fix:, nodes, pos, "
        "heap, recycle bin, bubble up/down) for EVERY operation sequence: no panic, representation invariant, step-by-step simulation by an abstract "
        "coalescing priority queue (nothing lost or invented, pop returns a MaxUB-maximal entry, length = poppable items), successive pops non-increasing in "
        "(ub, value), survivor keeps the larger value with its own path and the larger ub, coalescing only for equal (state, depth); refutation witness for the "
        "pre-fix code. Tied to the code by exhaustive short + long random operation sequences (exact answer equality) and by replaying the answers of BOTH "
        "fringes against the abstract queue.",
   note=TB + "SimpleFringe is binary_heap_plus (external): specified by the abstract queue and tested only.",
   technique="Coq refinement proof (heap model -> abstract priority queue) + exhaustive op-sequence correspondence"),
 "C10": dict(cat="proof", design="7.10",
   text="Dominance pruning is sound; the checker implements Pareto-front semantics. Checker level: closed Coq theorems (partial_cmp is the component-wise order, verdict <-> an earlier query "
        "strictly dominates, store is an antichain, threshold soundness, cmp ranks the dominator first) for every query sequence, tied to the code by exhaustive + random differential runs with the "
        "Pareto-front specification as oracle. Solver level (DomSearch.v): closed theorem C10_sequential_solver_with_dominance_returns_optimum - sequential solver, clean flavours, no cache - for rules "
        "under which a strictly dominated reachable pair is never optimal (implied by STRICT admissibility: strict dominance => strictly larger value + value-to-go, e.g. the exact rule); and a closed "
        "REFUTATION of the clause as stated: a rule that is merely admissible in the value-to-go sense makes the solver return 6 instead of 11 (circular pruning through store entries that are never "
        "resolved) - reproduced on the real code and recorded as known finding D10. Check: solver runs with rules on / off vs exhaustive enumeration and vs the solver model, shared-store diagram stream.",
   note=TB + "Not proved: transition-monotone rules that are not strictly admissible; pooled / cache / NoDupFringe / parallel configurations with a rule.",
   technique="Coq proof (checker; solver level under strict admissibility) + refutation witness + differential correspondence"),
 "C06": dict(cat="proof", design="7.6",
   text="Relaxed diagrams: valid upper bound, truthful exactness. Closed Coq theorems about Mdd.compile for ANY compilation input and tie-break: C06_relaxed_value_is_an_upper_bound (best value >= the "
        "sub-problem optimum whenever it beats the incumbent), C06_exactness_claim_is_truthful (declared exact => best exact value = optimum), C06_best_exact_solution_is_genuine (the best exact "
        "solution replays to exactly that value). " + PREM + DIA,
   note=DNOTE,
   technique=DTECH),
 "C07": dict(cat="proof", design="7.7",
   text="Restricted diagrams: feasible lower bounds; exact mode optimal. Closed Coq theorems: C07_restricted_value_is_feasible (the best value is the value of a complete feasible run whose decisions "
        "are the best solution, exact integer arithmetic), C07_restricted_value_is_a_lower_bound, C06_exactness_claim_is_truthful (any compilation type), C07_exact_mode_yields_the_optimum (any width). "
        + PREM + DIA,
   note=DNOTE,
   technique=DTECH),
 "C08": dict(cat="proof", design="7.8",
   text="Cut-sets: exact, progressing, validly bounded, covering. Closed Coq theorems for both cut-set types (last exact layer, frontier): (i) C08_cutset_nodes_are_exact, (ii) "
        "C08_cutset_nodes_are_strictly_deeper (+ C08_cutset_is_bounded), (iii) C08_cutset_upper_bounds_are_valid, (iv) C08_cutset_covers_the_optimum. " + PREM + DIA +
        "(ii) is FALSE for the pooled flavour with long arcs: known finding D1, suppressed only where the Coq model of the unchanged code hands out the same node.",
   note=DNOTE,
   technique=DTECH),
 "C12": dict(cat="proof", design="7.12",
   text="Callback protocol. Closed Coq theorems about the chronological call log of ANY compilation (all three flavours, all types, any outcome): C12_callback_protocol (transition_cost only with "
        "dst = transition(src, d), d in the domain of its variable at src, the variable being the last next_variable result; merge on >= 2 states; relax with merged = the state just returned by "
        "merge and dst among the merged states, cost = the current cost of a genuine arc), C12_callbacks_only_on_states_of_the_layer (domains / transitions / costs only from states handed to the last "
        "next_variable call or returned by a merge since; merge members and relax targets likewise; nothing before the first next_variable call), C12_next_variable_depths. " + DIA,
   note=DNOTE,
   technique=DTECH),
 "C13": dict(cat="proof", design="7.13",
   text="Maximum width bounds the work per layer; combinators never yield 0. Closed Coq theorems on the call log: C13_restricted_width (all flavours), C13_relaxed_width_clean and C13_relaxed_width_pooled "
        "(the latter under the property's own premise that every state is impacted by every variable; shown necessary), exempting the root layer and the first layer below it (shown tight); "
        "Times / DivBy never 0 in the debug (panic on overflow) and release (wrap-around) arithmetic. Tied to the code by the call-log correspondence and a grid + random differential run of the "
        "combinators. " + DIA,
   note=DNOTE,
   technique=DTECH),
 "C20": dict(cat="proof", design="7.20",
   text="as_graphviz total and faithful. Closed Coq theorems about the model printer Viz.as_graphviz (VizProofs.v): for EVERY diagram the output is the rendering of a statement list (exact string "
        "equality); for a completed compilation (all flavours) that list declares every node not hidden by the configuration exactly once, draws every inbound arc of a declared node exactly once with "
        "its decision and cost between nodes of the diagram (declared or hidden by the configuration), marks best edges, draws the terminal iff the last layer is non-empty (clean flavours: and a best "
        "node exists), puts clusters only on request; C20_as_graphviz_total (never panics). Well-formedness is proved at line level only (header / footer, `;`-terminated lines, quote parity), "
        "not against a DOT grammar. Tied to the code by string equality of the real as_graphviz with the model printer for all 64 flag sets x 3 flavours on every diagram of the stream, plus a "
        "DOT reader and the terminal oracle on the implementation's output; corpus witness of the repaired defect D8 first. " + DIA,
   note=DNOTE,
   technique=DTECH),
 "C01": dict(cat="proof", design="7.1",
   text="Sequential branch-and-bound returns the true optimum. Closed, axiom-free Coq theorem C01_sequential_solver_returns_optimum (Assembly.v = SolverProofs.v + MddProgress.v + MddSim.v): "
        "there is f0 such that for every fuel >= f0 the model of SequentialSolver::maximize neither crashes nor runs out of fuel, reports is_exact, best_value = the optimum of exhaustive "
        "enumeration (None iff infeasible), lower = upper bound = optimum and a solution feasible with that value; C01_sequential_solver_returns_optimum_NoDupFringe is the same theorem with the faithful "
        "indexed-heap model of NoDupFringe (coalescing pushes). " + ASM + TIE,
   note=TB + "Hash-map iteration order abstracted (total comparator + tie-break oracle arguments); ties among equally valued terminal nodes are reported and excluded from trajectory comparisons.",
   technique="Coq proof (two storeys: B&B under diagram contracts; contracts proved about the diagram model) + differential correspondence + specification oracle"),
 "C02": dict(cat="proof", design="7.2",
   text="Reported solution feasible and consistent with the reported value. Coq: C02_sequential_solution_replays_to_reported_value (the returned solution is a permutation of a complete "
        "decision sequence that replays, in exact integer arithmetic, to exactly the reported value), C05_sequential_anytime_bounds_sound (same for a run cut off anywhere), "
        "C03_parallel_solver_returns_optimum (finished parallel runs), diagram level best_exact_solution_genuine. " + ASM +
        "Check: every solution reported by the sequential solver (uninterrupted, cut off at every poll) and by scheduled / un-scheduled parallel runs is replayed through the model's "
        "transition and cost functions; value = lower bound = Completion value; upper bound = value after an uninterrupted run; solver, diagram and fringe models compared with the code.",
   note=TB + "Hash-map iteration order abstracted (total comparator + tie-break oracle arguments); ties among equally valued terminal nodes are reported and excluded from trajectory comparisons.",
   technique="Coq proof (two storeys: B&B under diagram contracts; contracts proved about the diagram model) + differential correspondence + specification oracle"),
 "C03": dict(cat="proof", design="7.3",
   text="Parallel solver optimal for every interleaving and thread count. Closed Coq theorem C03_parallel_solver_returns_optimum about a labelled transition system of the coordination "
        "protocol (Par.v: one transition per acquisition of the critical mutex): for every T >= 1, every schedule, every feasible warm start and fuel >= fuelP the run ends Finished, exact, with "
        "the optimum of exhaustive enumeration and a feasible solution. " + ASM + "The LTS is trace-validated against the real worker threads, serialised by a scheduler through "
        "feature-guarded hooks: every schedule with <= k pre-emptions on tiny instances, random schedules beyond, 1..8 workers; identical (worker, critical section) sequences and results; "
        "the implementation's value compared with exhaustive enumeration; un-scheduled 2..16-thread stress.",
   note=TB + "Hash-map iteration order abstracted (total comparator + tie-break oracle arguments); ties among equally valued terminal nodes are reported and excluded from trajectory comparisons." + " Not modelled: memory ordering, spurious condvar wake-ups, interleavings inside a critical section.",
   technique="Coq proof (two storeys: B&B under diagram contracts; contracts proved about the diagram model) + differential correspondence + specification oracle"),
 "C04": dict(cat="proof", design="7.4",
   text="Parallel solver always terminates. Closed Coq theorems on the protocol LTS: C04_parallel_terminates (every schedule reaches Finished within the explicit bound fuelP), "
        "C04_no_deadlock_no_crash_any_cutoff, C04_no_reachable_deadlock, completion only when nothing is open or in progress. " + ASM +
        "Trace validation as for C03, with cutoffs firing at random polls and thread counts different from the construction-time count: deadlock = scheduler state with no runnable worker "
        "while one is parked; step bound; watchdog. Finding D2 (with_nb_threads above the construction count: out-of-bounds panic, then hang) was reproduced and repaired (fix: commit); the "
        "protocol model contains the pre-fix variant as refutation.",
   note=TB + "Hash-map iteration order abstracted (total comparator + tie-break oracle arguments); ties among equally valued terminal nodes are reported and excluded from trajectory comparisons." + " Not modelled: spurious condvar wake-ups; the post-panic behaviour of the other workers (irrelevant once no panic is reachable).",
   technique="Coq proof (two storeys: B&B under diagram contracts; contracts proved about the diagram model) + differential correspondence + specification oracle"),
 "C05": dict(cat="proof", design="7.5",
   text="Bounds stay sound when the search is cut off at any point. Closed Coq theorems for ANY cutoff point, fuel and feasible warm start: sequential C05_sequential_anytime_bounds_sound "
        "(both fringes) and PARALLEL C05_parallel_anytime_bounds_sound (every thread count and schedule; also C05_parallel_bounds_sound_in_every_reachable_state): no crash, lb <= ub, "
        "lb <= optimum <= ub, a reported value comes with a feasible solution of that value, exact => optimum. " + ASM +
        "Check: counting cutoff firing at EVERY poll index of the uninterrupted run; bounds enclose the optimum of exhaustive enumeration, solution replays to the lower bound; solver model "
        "compared at every index. Parallel: scheduled runs with cutoffs incl. a recipe that makes several workers abort in one run, saturating relaxations, corpus of the two defects found "
        "(D3 and its residual D9, both reproduced on the real code and repaired by fix: commits; D9 was found while proving the parallel theorem).",
   note=TB + "Hash-map iteration order abstracted (total comparator + tie-break oracle arguments); ties among equally valued terminal nodes are reported and excluded from trajectory comparisons.",
   technique="Coq proof (two storeys: B&B under diagram contracts; contracts proved about the diagram model) + differential correspondence + specification oracle"),
 "C09": dict(cat="proof", design="7.9",
   text="The threshold cache never changes the answer. Closed Coq theorems: store level (C18); per compilation (Thresholds.v): every threshold a relaxed compilation writes is sound; SEARCH level "
        "(CacheSearch.v, 6.3k lines): C09_sequential_solver_with_cache_returns_optimum and C09_cache_does_not_change_the_answer - the sequential solver with the cache (clean flavours, no dominance rule, "
        "SimpleFringe) returns the optimum of exhaustive enumeration with a feasible solution, same value and lower bound as with the cache off; premises of C01 with the guard 3B <= isize::MAX; the "
        "per-compilation contracts are discharged for the diagram model. The invariant is value-based (merged nodes are dropped by the cache filter too) and relies on best-first pops, so it does NOT "
        "cover the parallel solver. " + ASM + "Check: caching vs non-caching solvers (sequential, parallel with one worker and scheduled) vs exhaustive enumeration on re-convergent, top-merge and depth-free "
        "families; thresholds in the DOT dump and every cache call of a solver-like diagram stream compared with the model.",
   note=TB + "Not proved: parallel solver with the cache, pooled diagrams, NoDupFringe, cache together with a dominance rule.",
   technique="Coq proof (store, per-compilation, search level) + differential correspondence + specification oracle"),
 "C14": dict(cat="proof", design="7.14",
   text="A warm-start primal never makes the solver miss a better solution. Closed Coq theorem C14_primal_never_hides_the_optimum (any feasible (value, solution) given to set_primal: same "
        "conclusion as C01) and set_primal_strict (the incumbent is replaced only by a strictly better pair, value and solution together). " + ASM +
        "Check: runs with primal = optimum / best sub-optimal / worst feasible value and sequences of set_primal calls, taken from the specification's enumeration; sequential model compared.",
   note=TB + "Hash-map iteration order abstracted (total comparator + tie-break oracle arguments); ties among equally valued terminal nodes are reported and excluded from trajectory comparisons.",
   technique="Coq proof (two storeys: B&B under diagram contracts; contracts proved about the diagram model) + differential correspondence + specification oracle"),
 "C15": dict(cat="other", design="7.15",
   text='Long arcs preserve optimum and termination. Pooled vs plain solver vs exhaustive enumeration on depth-free models with irrelevance patterns; termination watchdog; diagram model compared (incl. sub-problems whose path is shorter than their depth). Coq (PooledEq.v, Props/C15u.v): for models WITHOUT long arcs the pooled diagram and the pooled sequential / parallel solvers are proved observationally equal to the frontier ones, so the theorems of C01 / C03 / C04 / C06 / C07 / C08 transfer to the pooled flavour; WITH long arcs there is no theorem. KNOWN FINDING D1: without cache the pooled solver may never terminate because a sub-problem can enter its own frontier cut-set (recorded in KNOWN_FINDINGS.json, not repairable by a small patch; suppressed only where the Coq model of the unchanged code reproduces the same symptom on the same instance).',
   note=TB + "Hash-map iteration order abstracted (total comparator + tie-break oracle arguments); ties among equally valued terminal nodes are reported and excluded from trajectory comparisons.",
   technique="executable Coq model + differential correspondence + specification oracle"),
 "C19": dict(cat="proof", design="7.19",
   text="Sequential anytime behaviour monotone in the cutoff point. Closed Coq theorems C19_bounds_monotone_in_cutoff / _any_later_cutoff (lower bound non-decreasing, upper bound non-increasing "
        "in the poll index at which the cutoff fires) and C19_large_cutoff_is_uninterrupted_run. " + ASM +
        "Check: all consecutive cutoff indices 1..K+1 of each run, both fringes; exact with both bounds at the optimum after the last poll; solver and fringe models compared at every index.",
   note=TB + "Hash-map iteration order abstracted (total comparator + tie-break oracle arguments); ties among equally valued terminal nodes are reported and excluded from trajectory comparisons.",
   technique="Coq proof (two storeys: B&B under diagram contracts; contracts proved about the diagram model) + differential correspondence + specification oracle"),
 "C16": dict(cat="other", design="7.16",
   text="Every shipped example solver computes the true optimum. Independent brute-force specifications of the twelve combinatorial problems in Gallina "
        "(ExSpec.v: enumeration of subsets / permutations / assignments, NOT dynamic programs), extracted to OCaml and used as oracle for the example BINARIES "
        "built from the working tree, on generated instance files in each format (bounded-exhaustive smallest sizes in the thorough tier) x widths {1,2,3,default} "
        "x threads {1,2,4}; timeouts = hangs, non-zero exit = crash. The oracle is re-validated on every run against the optima documented in the examples' tests. "
        "For ONE example, knapsack, there is more: a Coq transliteration of its DP model / relaxation / Dantzig rough bound / ranking (Knapsack.v) is proved to meet the premises of the solver theorem "
        "(incl. admissibility of the integer fractional bound for items sorted by ratio), the theorem is instantiated on it (kp_C01: clean flavours, no cache / dominance, i.e. NOT the configuration of the "
        "example's main), and the model is tied to the example's own source, compiled into the harness, by differential runs over decision prefixes (states, domains, costs, bounds, merges) including the "
        "premise `sorted by ratio` evaluated on the order Knapsack::new computes. For a SECOND example, misp (dynamic variable order: the static-order solver theorem does not apply), the model's well-formedness is proved at component level (Misp.v, Props/C16m.v): "
        "feasible decision sequences over ANY variable sequence = independent sets with the same weight, union merge covers and covering is a simulation, the positive-weights rough bound is admissible and monotone, long arcs are neutral, the dynamic order picks only undecided vertices and stops when all states are empty; "
        "tied to the example's own source (compiled into the harness, instances through its own parser) by differential runs, plus library-vs-model-optimum runs. "
        "For the other ten examples there is no Coq proof that their models are well formed: specification + differential test. "
        "Four defects were repaired (knapsack rough bound twice, misp rough bound, the overflow of alp / psp / sop on infeasible instances), the others are recorded as known findings.",
   note=TB + "exdriver.ml contains independent parsers of the twelve input formats (trusted glue).",
   technique="independent Gallina enumeration specs (extracted) as oracle for the example binaries"),
}

def main():
    checks = []
    for pid in ALL:
        if pid not in CHECKS: continue
        c = CHECKS[pid]
        checks.append({
            "property_id": pid,
            "quick_cmd": "bin/check %s quick" % pid,
            "thorough_cmd": "bin/check %s thorough" % pid,
            "evidence_file": "/verif/evidence/%s.json" % pid,
            "replay_cmd_template": "bin/check %s quick --replay {path}" % pid,
            "engine": "coq-model+correspondence",
            "level_claimed": {"category": c["cat"], "text": c["text"], "design_ref": "DESIGN.md section " + c["design"]},
            "level_note": c["note"],
            "technique": c["technique"],
        })
    na = [{"property_id": p, "reason": "check under construction in this session (model exists or is being written; not yet registered)"}
          for p in ALL if p not in CHECKS]
    m = {
        "version": 1,
        "setup_cmd": "bin/setup",
        "hooks": {"guard": "cargo feature xgillard_ddo_verif (crate ddo)", "enable": "harness/Cargo.toml depends on ddo with features = [\"xgillard_ddo_verif\"]; the callback is only installed by the `par` command",
                  "baseline_off_cmd": "cd /repo && cargo test --workspace --no-fail-fast --offline", "source_commits": ["604e537"], "add_only": True},
        "engines": [{"name": "coq-model+correspondence", "path": "/verif/coq /verif/extract /verif/harness /verif/tools",
                     "serves_properties": [c["property_id"] for c in checks],
                     "kind_free_text": "Coq 8.16 model + theorems; OCaml extraction; Rust differential harness; Python driver"}],
        "checks": checks,
        "not_applicable": na,
        "notes": "See DESIGN.md. Genuine defects repaired in /repo by 'fix:' commits are listed in KNOWN_FINDINGS.json.",
    }
    json.dump(m, open(os.path.join(VERIF, "MANIFEST.json"), "w"), indent=1)
main()
