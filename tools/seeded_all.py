"""Runs every seeded change against the checks recorded for it (meta.json: property + also_breaks) and writes seeded/SUMMARY.json.
Edits /repo in place (apply, run, revert): never run it while another check is running."""
import json, glob, os, subprocess, sys
VERIF = os.path.dirname(os.path.dirname(os.path.abspath(__file__)))
out = {}
for d in sorted(glob.glob(os.path.join(VERIF, "seeded", "*", "meta.json"))):
    name = os.path.basename(os.path.dirname(d)); m = json.load(open(d))
    checks = [m["property"]] + list(m.get("also_breaks") or [])
    st = subprocess.run(["git", "-C", "/repo", "status", "--porcelain"], capture_output=True, text=True).stdout.strip()
    if st: print("refusing: /repo dirty"); sys.exit(2)
    r = subprocess.run(["git", "-C", "/repo", "apply", os.path.join(os.path.dirname(d), "patch.diff")], capture_output=True, text=True)
    if r.returncode != 0:
        out[name] = {"error": "patch does not apply: " + r.stderr[:200]}; continue
    res = {}
    try:
        for c in checks:
            p = subprocess.run([os.path.join(VERIF, "bin", "check"), c, "quick"], capture_output=True, text=True, cwd=VERIF)
            line = [l for l in p.stdout.split("\n") if l.startswith("VIOLATION") or l.startswith("OK ")]
            v = line[-1] if line else "?"
            res[c] = "missed" if p.returncode == 0 else ("no-failing-input-found" if v.endswith("no-failing-input-found") else "concrete")
    finally:
        subprocess.run(["git", "-C", "/repo", "checkout", "--", "."], check=True)
    out[name] = res; print(name, res, flush=True)
json.dump(out, open(os.path.join(VERIF, "seeded", "SUMMARY.json"), "w"), indent=1)
