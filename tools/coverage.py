"""Measures which lines of the modelled Rust sources the correspondence streams execute.

usage: python3 tools/coverage.py [--no-run]   (runs the quick tier of every check first, unless --no-run; then replays the case files left in .build/work)

Builds the harness with `-C instrument-coverage` (nightly toolchain: it ships llvm-profdata / llvm-cov), replays every
`*_impl_<cmd>_<k>.txt` case file of the last runs, and prints / writes, per modelled source file, the executed and never-executed
regions. The result (coverage/summary.json, coverage/uncovered.txt) documents how far the differential tie reaches into the code;
it is a measurement, not a check (no exit code semantics)."""
import glob, json, os, re, subprocess, sys, concurrent.futures
VERIF = os.path.dirname(os.path.dirname(os.path.abspath(__file__)))
TARGET = os.path.join(VERIF, ".build", "cov-target")
PROF = os.path.join(VERIF, ".build", "cov-prof")
BIN = os.path.join(TARGET, "debug", "ddoharness")
TOOLS = glob.glob(os.path.expanduser("~/.rustup/toolchains/nightly-x86_64-unknown-linux-gnu/lib/rustlib/*/bin"))[0]
FILES = ["implementation/mdd/clean.rs", "implementation/mdd/pooled.rs", "implementation/mdd/node_flags.rs", "implementation/solver/sequential.rs",
         "implementation/solver/parallel.rs", "implementation/fringe/no_duplicate.rs", "implementation/fringe/simple.rs",
         "implementation/cache/simple.rs", "implementation/dominance/simple.rs", "implementation/heuristics/width.rs",
         "abstraction/solver.rs", "abstraction/dominance.rs", "abstraction/cache.rs"]


def main():
    os.makedirs(PROF, exist_ok=True)
    env = dict(os.environ, RUSTFLAGS="-C instrument-coverage", CARGO_TARGET_DIR=TARGET, CARGO_NET_OFFLINE="true",
               LLVM_PROFILE_FILE=os.path.join(PROF, "build-%p.profraw"))     # instrumented build scripts must not drop profiles into /repo
    p = subprocess.run(["cargo", "+nightly", "build", "--offline", "--quiet"], cwd=os.path.join(VERIF, "harness"), env=env,
                       stdout=subprocess.PIPE, stderr=subprocess.STDOUT, text=True)
    if p.returncode != 0:
        print(p.stdout[-3000:]); return 2
    subprocess.run(["rm", "-rf", PROF]); os.makedirs(PROF)
    if "--no-run" not in sys.argv:
        # produce the case files: the quick tier of every check on the current tree (scheduled parallel cases are kept on request)
        for f in glob.glob(os.path.join(VERIF, ".build", "work", "keep*_impl_par_*.txt")): os.remove(f)
        for pid in ["C%02d" % i for i in range(1, 21)]:
            if pid == "C16": continue
            subprocess.run([os.path.join(VERIF, "bin", "check"), pid, "quick"], env=dict(os.environ, VERIF_KEEP_CASES="1"),
                           stdout=subprocess.DEVNULL, stderr=subprocess.DEVNULL)
    cases = []
    for (pat, cmd) in (("c13_width.txt", "width"), ("c17_cases.txt", "gap"), ("c18_par.txt", "cachepar"), ("c18_dpar.txt", "dompar"), ("par_*.txt", "solve")):
        for f in sorted(glob.glob(os.path.join(VERIF, ".build", "work", pat))): cases.append((cmd, f))
    for f in sorted(glob.glob(os.path.join(VERIF, ".build", "work", "*_impl_*_*.txt"))):
        m = re.match(r".*_impl_([a-z]+)_\d+\.txt$", f)
        if m and m.group(1) in ("gap", "width", "cache", "cachepar", "dom", "dompar", "fringe", "mdd", "solve", "par"):
            cases.append((m.group(1), f))
    def run(c):
        i, (cmd, f) = c
        e = dict(os.environ, LLVM_PROFILE_FILE=os.path.join(PROF, "p%05d.profraw" % i))
        try:
            subprocess.run([BIN, cmd, f], env=e, stdout=subprocess.DEVNULL, stderr=subprocess.DEVNULL, timeout=900)
        except subprocess.TimeoutExpired:
            pass
    with concurrent.futures.ThreadPoolExecutor(12) as ex:
        list(ex.map(run, enumerate(cases)))
    raws = glob.glob(os.path.join(PROF, "*.profraw"))
    lst = os.path.join(PROF, "list.txt"); open(lst, "w").write("\n".join(raws))
    merged = os.path.join(PROF, "all.profdata")
    subprocess.run([os.path.join(TOOLS, "llvm-profdata"), "merge", "-sparse", "-f", lst, "-o", merged], check=True)
    out = subprocess.run([os.path.join(TOOLS, "llvm-cov"), "export", "-format=text", "-instr-profile", merged, BIN],
                         stdout=subprocess.PIPE, text=True, check=True).stdout
    data = json.loads(out)["data"][0]
    os.makedirs(os.path.join(VERIF, "coverage"), exist_ok=True)
    summary = {"case_files_replayed": len(cases), "files": {}}
    unc = []
    for f in data["files"]:
        name = f["filename"]
        rel = name.split("/ddo/src/")[-1] if "/ddo/src/" in name else None
        if rel not in FILES: continue
        s = f["summary"]
        # line -> executed? from segments (line, col, count, has_count, is_region_entry, is_gap)
        src = open(name).read().split("\n")
        in_tests = len(src)
        for i, l in enumerate(src):
            if re.match(r"\s*#\[cfg\(test\)\]", l) or re.match(r"^mod tests? *\{", l) or re.match(r"^mod test_", l): in_tests = i; break
        never = set(); hit = set()
        segs = f["segments"]
        for k, sg in enumerate(segs):
            line, col, count, has_count, entry = sg[0], sg[1], sg[2], sg[3], sg[4]
            gap = sg[5] if len(sg) > 5 else False
            if not has_count or gap: continue
            end = segs[k + 1][0] if k + 1 < len(segs) else line
            for ln in range(line, max(line, end - (1 if (k + 1 < len(segs) and segs[k + 1][1] == 1) else 0)) + 1):
                (hit if count > 0 else never).add(ln)
        never = sorted(l for l in never if l not in hit and l - 1 < in_tests and src[l - 1].strip() not in ("", "}", "{", "};", "})", "});"))
        summary["files"][rel] = {"lines_percent": round(s["lines"]["percent"], 1), "regions_percent": round(s["regions"]["percent"], 1),
                                  "functions_percent": round(s["functions"]["percent"], 1),
                                  "never_executed_lines_outside_tests": len(never)}
        for l in never:
            unc.append("%s:%d: %s" % (rel, l, src[l - 1].rstrip()[:140]))
    json.dump(summary, open(os.path.join(VERIF, "coverage", "summary.json"), "w"), indent=1)
    open(os.path.join(VERIF, "coverage", "uncovered.txt"), "w").write("\n".join(unc) + "\n")
    print(json.dumps(summary, indent=1))
    return 0


if __name__ == "__main__":
    sys.exit(main())
