from check_mdd import *
import time, sys
def kv(l):
    d={}
    for x in l[2:].split():
        if '=' in x:
            k,_,v=x.partition('='); 
            if k not in d: d[k]=v
    return d
if __name__ != "__main__": raise SystemExit
rng = Rng(int(sys.argv[1]) if len(sys.argv)>1 else 7)
blocks=[]
for i in range(120):
    r = rng.fork()
    I = gen_layered(r, nvars=r.range(3,6), per_layer=r.range(2,5), dom_max=r.range(1,3))
    lines=[I.line()]
    for flv in (0,1,2):
        for cache in (0,1):
            for fr in (0,1):
                for w in (1,2,3):
                    for dom in (0,1):
                        lines.append("S 0 1 1 %d %d %d %d 0 %d 0" % (flv, cache, fr, w, dom))
    blocks.append(lines)
t=time.time()
sh, oi = run_sharded("impl","solve",blocks,tag="t")
_, om = run_sharded("model","solve",blocks,tag="t")
_, oo = run_sharded("model","oracle",[[b[0],"O opt"] for b in blocks],tag="t")
print("time",time.time()-t)
n=0;bad=0;bado=0;ties=0
for k in range(len(sh)):
    pi=0
    for j,(idx,blk) in enumerate(sh[k]):
        opt = oo[k][j][2:]
        for c in range(len(blk)-1):
            li=oi[k][pi]; lm=om[k][pi]; pi+=1; n+=1
            fi=kv(li); fm=kv(lm)
            if fi.get('bv')!=opt or fi.get('x')!='1':
                bado+=1
                if bado<4: print("ORACLE", opt, li, blk[c+1])
            keys=['x','bv','lb','ub','explored','polls']
            if fm.get('tie')=='1': ties+=1; keys=['x','bv','lb','ub']
            if any(fi.get(q)!=fm.get(q) for q in keys):
                bad+=1
                if bad<6: print("DIFF",blk[c+1],"\n  ",li[:300],"\n  ",lm[:300])
print(n,"bad",bad,"oracle-bad",bado,"ties",ties)
