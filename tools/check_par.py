"""Parallel-solver checks (C03 optimal under every interleaving, C04 always terminates, parallel parts of C05/C02):
the real workers are serialised by the harness scheduler (hooks in parallel.rs) and driven by explicit schedules;
the Coq protocol model (Par.v) replays the same schedule; traces and results must agree."""
import concurrent.futures
from common import *
from gen import *
from check_mdd import oracle_batch, FLV
from check_solve import consistency_failures, describe, gen_instances, kv


def kvp(l):
    d = {}
    for x in l[2:].split():
        if "=" in x:
            k, _, v = x.partition("=")
            if k not in d: d[k] = v
    return d


def run_ps(cases, which=("impl", "model"), timeout=30):
    """cases: list of (inst_line, ps_line). One process per case (a deadlock ends the process)."""
    def work(i):
        path = workfile("ps_%d_%d.txt" % (os.getpid(), i))
        open(path, "w").write(cases[i][0] + "\n" + cases[i][1] + "\n")
        if os.environ.get("VERIF_KEEP_CASES"):          # tools/coverage.py replays them through an instrumented build
            open(workfile("keep%d_impl_par_%d.txt" % (os.getpid(), i)), "w").write(cases[i][0] + "\n" + cases[i][1] + "\n")
        oi = om = None
        if "impl" in which:
            try:
                p = subprocess.run([HARNESS_BIN, "par", path], stdout=subprocess.PIPE, stderr=subprocess.PIPE, text=True, timeout=timeout)
                oi = p.stdout.strip().split("\n")[-1] if p.stdout.strip() else "P end=crash(no output, exit %d)" % p.returncode
            except subprocess.TimeoutExpired:
                oi = "P end=timeout"
        if "model" in which:
            p = subprocess.run([MODEL_BIN, "par", path], stdout=subprocess.PIPE, stderr=subprocess.PIPE, text=True, timeout=120)
            om = p.stdout.strip()
        try: os.remove(path)
        except OSError: pass
        return oi, om
    with concurrent.futures.ThreadPoolExecutor(max_workers=16) as ex:
        return list(ex.map(work, range(len(cases))))


def ps_line(threads, ctor, flv, cache, fringe, width, cutk, dom, choices):
    return "PS 1 %d %d %d %d %d %d %d %d 0 | %s" % (threads, ctor, flv, cache, fringe, width, cutk, dom, " ".join(map(str, choices)))


def parse_trace(f):
    tr = [(int(t.split(":")[0]), t.split(":")[1]) for t in f.get("trace", "").split(",") if t]
    en = [[int(x) for x in e.split(".")] for e in f.get("enabled", "").split(",") if e]
    return tr, en


def enumerate_schedules(inst_line, mk_case, k, maxruns):
    """systematic exploration: every schedule with at most k pre-emptions (depth-first, explicit choice prefixes)"""
    results = []; stack = [([], 0)]; seen = set()
    while stack and len(results) < maxruns:
        batch = []
        while stack and len(batch) < 16:
            pre, used = stack.pop()
            if tuple(pre) in seen: continue
            seen.add(tuple(pre)); batch.append((pre, used))
        if not batch: break
        outs = run_ps([(inst_line, mk_case(pre)) for pre, _ in batch], which=("impl",))
        for (pre, used), (oi, _) in zip(batch, outs):
            results.append((pre, oi))
            f = kvp(oi)
            tr, en = parse_trace(f)
            explicit = []
            for i, ((w, _), e) in enumerate(zip(tr, en)):
                if i >= len(pre):
                    last = tr[i - 1][0] if i > 0 else None
                    for a_idx, a in enumerate(e):
                        if a == w: continue
                        cost = 1 if (last in e) else 0
                        if used + cost <= k:
                            stack.append((explicit + [a_idx], used + cost))
                explicit.append(e.index(w))
    return results


def check_par(tier, pid, chk=None):
    embedded = chk is not None
    if chk is None:
        chk = Check(pid, tier, "proof")
        pinned = {"C03": ["C03_par_optimal_every_schedule", "C03_par_correct", "C03_discarding_the_fringe_is_sound",
                          "C03_parallel_solver_returns_optimum", "C03_parallel_finished_run_is_optimal", "C03_holds_on_table_family",
                          "C03_parallel_solver_returns_optimum_NoDupFringe", "C03_holds_on_table_family_NoDupFringe",
                          "C03_example_coalescing_while_another_worker_holds_a_node"],
                  "C04": ["C04_no_deadlock", "C04_no_worker_crash", "C04_completion_only_when_idle", "C04_terminates_within_explicit_bound",
                          "C04_parallel_terminates", "C04_no_deadlock_no_crash_any_cutoff", "C04_no_reachable_deadlock",
                          "C04_parallel_terminates_NoDupFringe", "C04_no_deadlock_no_crash_any_cutoff_NoDupFringe"]}.get(pid)
        if pinned:
            pr = check_proofs("%s+%su" % (pid, pid), pinned)
            proof_coverage(chk, pr, "make theories/Props/%s.vo Props/%su.vo && coqc on both (Print Assumptions scanned)" % (pid, pid))
    for b, what in ((build_harness(), "harness"), (build_model(), "model driver")):
        if not b[0]:
            chk.violation("unproved", what + " does not build: " + b[1], {"build": b[1]}); return chk.finish()
    rng = Rng(chk.seed)
    stats = {"runs": 0, "systematic_schedules": 0, "random_schedules": 0, "decisions": 0, "runs_with_parked_worker": 0, "aborted": 0,
             "threads": {}, "ties": 0, "thread_count_differs_from_ctor": 0}
    nontrivial = set(); samples = []
    agree = 0; dis = []
    cases = []   # (I, ps_line, opt_index, kind)
    nsys = (6 if tier == "quick" else 40); nrand = ((60 if pid != "C03" else 30) if tier == "quick" else 400)
    insts = []
    for i in range(nsys + nrand):
        r = rng.fork()
        small = i < nsys
        if small or i % 2 == 0:
            I = gen_layered(r, nvars=r.range(3, 4) if small else r.range(3, 6), per_layer=r.range(2, 3) if small else r.range(2, 4),
                            dom_max=r.range(2, 3), dominance=0 if i % 3 else None)
        else:   # larger searches: several sub-problems open at the same time (needed for two workers to hold nodes simultaneously)
            I = gen_layered(r, nvars=r.range(5, 7), per_layer=r.range(3, 5), dom_max=r.range(2, 3), dominance=0, rub=r.choice([0, 0, 3]), dead=False)
        insts.append(I)
    # corpus first: minimised witnesses (instance + scheduled runs) of the defects found earlier
    import glob
    ncorpus = 0
    if pid in ("C04", "C05"):
        for fpath in sorted(glob.glob(os.path.join(VERIF, "corpus", "C0[45]", "*.txt"))):
            ls = [l for l in open(fpath).read().split("\n") if l.strip()]
            if not ls or not ls[0].startswith("I "): continue
            pss = [l for l in ls[1:] if l.startswith("PS ")]
            if not pss: continue
            insts.append(Inst.parse(ls[0]))
            for l in pss:
                cases.append((len(insts) - 1, l, "corpus", None)); ncorpus += 1
    stats["corpus_runs"] = ncorpus
    # instances whose relaxed costs SATURATE (slack = isize::MAX) while a rough-bound table keeps some bounds finite: cut-set nodes whose
    # upper bound is exactly isize::MAX sit next to nodes with small bounds (the sentinel values of abort_search)
    nsat = 0
    if pid in ("C04", "C05"):
        for j in range(10 if tier == "quick" else 60):
            r = rng.fork()
            I = gen_layered(r, nvars=r.range(3, 5), per_layer=r.range(2, 3), dom_max=2, dominance=0, rub=1, dead=False)
            I.slack = (1 << 63) - 1
            hb = I.hbase()
            # keep the table admissible, but make it loose (isize::MAX) on about half of the base states
            I.rubkind = 1
            I.rub = [((1 << 63) - 1) if (r.chance(1, 2) or I.rub[b] is None) else I.rub[b] for b in range(I.nbase)] if I.rub else [(1 << 63) - 1] * I.nbase
            insts.append(I); nsat += 1
            for T in (2, 3):
                for d in (0, 1, 2, 3, 4, 6):
                    for tail in ([x for _ in range(20) for x in range(T - 1, -1, -1)], [x for _ in range(20) for x in range(T)]):
                        cases.append((len(insts) - 1, ps_line(T, T, r.choice([0, 1]), 0, 0, 1, 2 * I.nvars + d, 0, [0] * 7 + tail), "saturating", None))
                        stats["random_schedules"] += 1
    stats["saturating_relaxation_instances"] = nsat
    opts = oracle_batch([(I.line(), ["O opt"]) for I in insts])
    cfgs = [(0, 0, 0, 1), (1, 0, 1, 1), (0, 1, 0, 1), (2, 0, 0, 1), (1, 1, 1, 2)]
    # ---- systematic part: all schedules with <= k pre-emptions
    k = 2 if tier == "quick" else 3
    sysres = []
    for i in range(nsys):
        I = insts[i]
        for T in (2, 3):
            flv, cache, fr, w = cfgs[(i + T) % len(cfgs)]
            cut = 0
            if pid in ("C04", "C05"): cut = rng.range(2, 12)
            mk = lambda pre, T=T, flv=flv, cache=cache, fr=fr, w=w, cut=cut: ps_line(T, T, flv, cache, fr, w, cut, 0, pre)
            res = enumerate_schedules(I.line(), mk, k, 120 if tier == "quick" else 1500)
            for pre, oi in res:
                cases.append((i, mk(pre), "sys", oi))
            stats["systematic_schedules"] += len(res)
    # ---- random schedules (PCT-like: random choices at every decision), more threads, cutoffs, thread counts != ctor
    for i in range(nsys, nsys + nrand):
        I = insts[i]
        for rep in range(3 if i % 2 == 0 else 8):
            T = rng.choice([1, 2, 2, 3, 4] if pid == "C03" else [1, 2, 3, 4, 6, 8])
            ctor = T
            if pid == "C04" and rng.chance(1, 2):
                ctor = rng.choice([1, 2, 16]);
            flv, cache, fr, w = rng.choice(cfgs)
            dom = 1 if (I.domkind == 1 and rng.chance(1, 2)) else 0
            cut = 0
            if pid in ("C04", "C05") and rng.chance(2, 3): cut = rng.range(8, 70) if i % 2 else rng.range(1, 40)
            if i % 2 and pid in ("C04", "C05"): T = rng.choice([2, 2, 3, 4]); ctor = T
            ch = [rng.below(8) for _ in range(rng.range(0, 80))]
            cases.append((i, ps_line(T, ctor, flv, cache, fr, w, cut, dom, ch), "rand", None))
            stats["random_schedules"] += 1
    # ---- two-abort recipe (C04 / C05): worker 0 processes the root alone, then the workers alternate so that several of them hold a
    #      node when the cutoff fires a few polls after the root has been processed (the situation of defect D3 and of its variants)
    if pid in ("C04", "C05"):
        for i in range(nsys, nsys + nrand):
            if i % 2 == 0: continue
            I = insts[i]
            for T in (2, 3):
                for d in (1, 2, 3, 5, 8, 13):
                    flv, cache, fr = rng.choice([(0, 0, 0), (1, 0, 1), (0, 1, 0), (2, 0, 0)])
                    ch = [0] * 8 + [x for _ in range(40) for x in range(T - 1, -1, -1)]
                    cases.append((i, ps_line(T, T, flv, cache, fr, 1, 2 * I.nvars + d, 0, ch), "two-abort-recipe", None))
                    stats["random_schedules"] += 1
    todo = [(insts[i].line(), c) for (i, c, kind, oi) in cases]
    outs = run_ps(todo, which=("impl", "model"))
    for (i, case, kind, _), (oi, om) in zip(cases, outs):
        I = insts[i]; opt = opts[i][0]
        f = kvp(oi); fm = kvp(om)
        t = case.split()
        T = int(t[2]); ctor = int(t[3]); cut = int(t[8])
        stats["runs"] += 1; stats["threads"][str(T)] = stats["threads"].get(str(T), 0) + 1
        if T != ctor: stats["thread_count_differs_from_ctor"] += 1
        tr, en = parse_trace(f)
        stats["decisions"] += len(tr)
        if any(len(e) < T for e in en[1:]): stats["runs_with_parked_worker"] += 1
        if f.get("trace", "").count("abort_search") >= 2: stats["runs_with_two_aborts"] = stats.get("runs_with_two_aborts", 0) + 1
        if len(set(w for w, _ in tr)) > 1: nontrivial.add(case + I.line()[:50])
        if len(samples) < 5 and stats["runs"] % 397 == 1: samples.append(describe(I, case, oi, om, optimum=opt))
        ctx = describe(I, case, oi, om, optimum=opt, schedule_kind=kind)
        # (A) the properties
        end = f.get("end")
        if end != "finished":
            what = {"deadlock": "deadlock: no runnable worker while some worker is parked on the condvar (lost wake-up)",
                    "steplimit": "the run exceeds the step bound (no progress)", "timeout": "maximize() does not return (watchdog)"}.get(end, "worker crash / no result: %s" % end)
            chk.violation("property", "parallel maximize(): %s (%d workers, construction count %d, cutoff at poll %s)" % (what, T, ctor, cut or "never"), ctx)
        elif "CRASH" in oi or f.get("x") is None:
            chk.violation("property", "a worker panics (%d workers, construction count %d)" % (T, ctor), ctx)
        else:
            if f.get("x") == "0": stats["aborted"] += 1
            if cut == 0:
                if f.get("x") != "1" or f.get("bv") != opt:
                    chk.violation("property", "parallel run (%d workers) returns %s (exact=%s); optimum by exhaustive enumeration is %s" % (T, f.get("bv"), f.get("x"), opt), ctx)
            else:
                if opt != "none" and not (int(f["lb"]) <= int(opt) <= int(f["ub"])):
                    chk.violation("property", "parallel run cut off at poll %d: bounds [%s, %s] do not enclose the optimum %s" % (cut, f["lb"], f["ub"], opt), ctx)
                if f.get("x") == "1" and f.get("bv") != opt:
                    chk.violation("property", "parallel run cut off at poll %d claims exactness with value %s, optimum %s" % (cut, f.get("bv"), opt), ctx)
            for m in consistency_failures(I, f, f.get("x") == "1" and cut == 0):
                chk.violation("property", "parallel run: %s" % m, ctx)
        # (B) trace validation against the protocol model
        keys = ["end", "x", "bv", "lb", "ub", "trace"]
        if fm.get("tie") == "1": keys = ["end", "x", "bv", "lb", "ub"]; stats["ties"] += 1
        elif end == "finished": keys += ["explored", "polls"]
        if end != "finished": keys = ["end", "trace"]
        if all(f.get(q) == fm.get(q) for q in keys): agree += 1
        else: dis.append((I, case, oi, om, [q for q in keys if f.get(q) != fm.get(q)]))
    if dis and not any(v[0] == "property" for v in chk.violations):
        # the protocol model no longer matches: widen the search for a concrete failing schedule (many random schedules, 2..4 workers,
        # instances in which several workers report improving solutions)
        wr = Rng(chk.seed + 991)
        wcases = []; wopts = []
        winsts = [gen_layered(wr.fork(), nvars=wr.range(4, 6), per_layer=wr.range(2, 4), dom_max=wr.range(2, 3), dominance=0, rub=wr.choice([0, 1]), dead=False)
                  for _ in range(100 if tier == "quick" else 400)]
        wo = oracle_batch([(I.line(), ["O opt"]) for I in winsts])
        for I, op in zip(winsts, wo):
            for rep in range(24):
                T = wr.choice([2, 2, 3, 4]); flv, cache, fr, w = wr.choice(cfgs)
                cut = 0 if pid == "C03" else wr.choice([0, 0, wr.range(5, 60)])
                wcases.append((I, ps_line(T, T, flv, cache, fr, w, cut, 0, [wr.below(8) for _ in range(wr.range(10, 150))]), op[0]))
        wouts = run_ps([(I.line(), c) for I, c, _ in wcases], which=("impl",))
        stats["widened_search_runs"] = len(wcases)
        for (I, case, opt), (oi, _) in zip(wcases, wouts):
            f = kvp(oi); cut = int(case.split()[8])
            ctx = describe(I, case, oi, optimum=opt, schedule_kind="widened")
            if f.get("end") != "finished":
                chk.violation("property", "widened search: parallel maximize() ends with %s" % f.get("end"), ctx)
            elif cut == 0 and (f.get("x") != "1" or f.get("bv") != opt):
                chk.violation("property", "widened search: parallel run returns %s (exact=%s); optimum by exhaustive enumeration is %s" % (f.get("bv"), f.get("x"), opt), ctx)
            elif cut and opt != "none" and f.get("lb") and not (int(f["lb"]) <= int(opt) <= int(f["ub"])):
                chk.violation("property", "widened search: cut off at poll %d: bounds [%s, %s] do not enclose the optimum %s" % (cut, f["lb"], f["ub"], opt), ctx)
            elif f.get("x") is not None:
                for m in consistency_failures(I, f, f.get("x") == "1" and cut == 0):
                    chk.violation("property", "widened search: parallel run: %s" % m, ctx)
    for (I, case, oi, om, why) in dis[:30]:
        if not any(v[0] == "property" for v in chk.violations):
            chk.violation("unproved", "trace validation: the protocol model (Par.v) and the scheduled real workers differ on %s" % why,
                          describe(I, case, oi, om, differs_on=why, theorem="theorems about Par.par_run no longer describe parallel.rs"))
    # ---- un-scheduled real threads (stress; only feeds the violation search)
    from check_solve import run_par_cases, sline
    stress = []
    for i in range(min(len(insts), 12 if tier == "quick" else 80)):
        I = insts[-1 - i]
        T = rng.choice([2, 4, 8, 16]); flv, cache, fr, w = rng.choice(cfgs)
        stress.append((I.line(), sline(1, T, T, flv, cache, fr, w, 0, 0), len(insts) - 1 - i))
    souts = run_par_cases([(a, b) for a, b, _ in stress], timeout=60)
    stress_ok = 0
    for (il, case, idx), li in zip(stress, souts):
        f = kv(li); opt = opts[idx][0]
        if "HANG" in f or "CRASH" in f:
            chk.violation("property", "un-scheduled parallel run hangs / crashes: %s" % li[:80], {"instance": il, "case": case, "impl": li})
        elif f.get("bv") != opt or f.get("x") != "1":
            chk.violation("property", "un-scheduled parallel run returns %s, optimum %s" % (f.get("bv"), opt), {"instance": il, "case": case, "impl": li})
        else: stress_ok += 1
    stats["unscheduled_stress_runs_ok"] = stress_ok
    if pid in ("C03", "C04") and not embedded:
        from check_solve import par_one_worker_cache_batch
        stats["one_worker_cache_runs"] = par_one_worker_cache_batch(chk, rng, 300 if tier == "quick" else 3000)
    if embedded:
        chk.cov["parallel_part"] = {"evaluations": stats["runs"], "distinct_nontrivial": len(nontrivial), "input_distribution": stats,
                                    "traces_validated_against_impl": agree, "disagreements_model_vs_impl": len(dis), "samples": samples[:2]}
        return None
    chk.cov.update({"evaluations": stats["runs"], "distinct_nontrivial": len(nontrivial),
                    "rule": "real worker threads serialised by the harness scheduler through the xgillard_ddo_verif hooks (one decision per acquisition of the critical "
                            "mutex / condvar park / exit): every schedule with at most %d pre-emptions on tiny instances (depth-first over explicit choice prefixes) and "
                            "seeded random schedules on larger ones, 1..8 workers%s; non-trivial = distinct run in which at least two workers were scheduled"
                            % (k, ", thread counts different from the construction-time count, cutoff firing at a random poll" if pid != "C03" else ""),
                    "samples": samples, "input_distribution": stats, "agreements_model_vs_impl": agree, "traces_validated_against_impl": agree,
                    "disagreements_model_vs_impl": len(dis),
                    "states": stats["decisions"], "transitions": stats["decisions"],
                    "explanation": "Trace validation of the Coq labelled transition system of the coordination protocol (Par.v) against the real workers under the same "
                                   "schedule (identical (worker, critical-section) sequences, results, explored / poll counts), plus the property evaluated on the "
                                   "implementation with exhaustive enumeration as oracle. Protocol theorems (no deadlock, termination bound, optimality under every schedule; "
                                   "Props/%s.v under the diagram contracts, Props/%su.v unconditional for the clean flavours)." % (pid, pid),
                    "open_obligations": ["cache / dominance / pooled configurations: trace validation + oracle only",
                                         "real-thread effects below the granularity of critical sections (memory ordering, spurious wake-ups)"]})
    chk.assumptions = ["parking_lot: mutex mutual exclusion; condvar without spurious wake-ups; notify_all wakes every waiter",
                       "compilations of different workers only interact through the cache / dominance store (dashmap per-key atomicity); "
                       "the scheduler serialises whole compilations (finer interleavings of cache accesses are exercised only by the un-scheduled stress runs)"]
    return chk.finish()
